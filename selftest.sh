#!/bin/bash
export GOVC_EVIDENCE_DIR=/tmp/govc-seed-evidence
# Must-fail corpus: every canary (a fix: commit re-reverted) and every seeded mutant must make its property's
# quick check exit 1 with a VIOLATION line. Run on /repo's working tree (patches are applied and reverted).
if [ -n "$(git -C /repo status --porcelain)" ]; then echo "refusing: /repo has uncommitted changes"; exit 2; fi
bad=0
for f in /verif/selftest/canaries/*.diff; do
  b=$(basename $f); prop=${b%%-*}
  grep -q "\"property_id\": \"$prop\"" /verif/MANIFEST.json || { echo "skip $b ($prop not claimed)"; continue; }
  git -C /repo apply $f || { echo "$b: does not apply"; bad=$((bad+1)); continue; }
  out=$(/verif/bin/govc check --property $prop --tier quick 2>&1); rc=$?
  git -C /repo checkout -q -- .
  echo "$b exit=$rc $(echo "$out" | grep -c '^VIOLATION') violation line(s)"
  [ $rc -eq 1 ] || bad=$((bad+1))
done
/verif/seed_rerun.sh | tee /tmp/seed_rerun.out
nd=$(grep -c "exit=[^1]" /tmp/seed_rerun.out)
echo "canaries not detected: $bad"
[ $bad -eq 0 ] && grep -q "not detected: 0" /tmp/seed_rerun.out
