package main

// Must-fail corpus by mechanical mutation (DESIGN section 4.3): every function in a property's
// function set is mutated with small syntactic operators; each mutant that compiles and keeps
// the repository's own test suite green must make the property's check fail. Survivors are
// listed for triage (equivalent mutant, change outside the property, or a hole in the contracts).
// Runs on scratch copies of /repo outside /repo and /verif; they are removed afterwards.

import (
	"bytes"
	"encoding/json"
	"flag"
	"fmt"
	"go/ast"
	"go/format"
	"go/parser"
	"go/token"
	"os"
	"os/exec"
	"path/filepath"
	"sort"
	"strings"
	"sync"
)

type mutant struct {
	ID     int    `json:"id"`
	File   string `json:"file"`
	Func   string `json:"func"`
	Line   int    `json:"line"`
	Op     string `json:"op"`
	Desc   string `json:"desc"`
	Status string `json:"status"` // no-build, tests-fail, killed, survived, engine-fail
	Detail string `json:"detail,omitempty"`
	src    []byte
}

// funcDeclKey: the govc key of a FuncDecl in package short
func funcDeclKey(short string, fd *ast.FuncDecl) string {
	if fd.Recv == nil || len(fd.Recv.List) == 0 {
		return short + "." + fd.Name.Name
	}
	t := fd.Recv.List[0].Type
	ptr := false
	if s, ok := t.(*ast.StarExpr); ok {
		ptr = true
		t = s.X
	}
	name := ""
	if id, ok := t.(*ast.Ident); ok {
		name = id.Name
	}
	if ptr {
		return fmt.Sprintf("%s.(*%s).%s", short, name, fd.Name.Name)
	}
	return fmt.Sprintf("%s.(%s).%s", short, name, fd.Name.Name)
}

func genMutants(repo string, funcs []string) []*mutant {
	want := map[string]bool{}
	for _, f := range funcs {
		want[f] = true
	}
	var out []*mutant
	id := 0
	for _, dir := range []string{".", "internal", "caldav", "carddav"} {
		short := map[string]string{".": "webdav", "internal": "internal", "caldav": "caldav", "carddav": "carddav"}[dir]
		files, _ := filepath.Glob(filepath.Join(repo, dir, "*.go"))
		for _, path := range files {
			base := filepath.Base(path)
			if strings.HasSuffix(base, "_test.go") || strings.Contains(base, "verif") {
				continue
			}
			fset := token.NewFileSet()
			src, _ := os.ReadFile(path)
			file, err := parser.ParseFile(fset, path, src, parser.ParseComments)
			if err != nil {
				continue
			}
			for _, d := range file.Decls {
				fd, ok := d.(*ast.FuncDecl)
				if !ok || fd.Body == nil || !want[funcDeclKey(short, fd)] {
					continue
				}
				key := funcDeclKey(short, fd)
				// enumerate mutation sites; each site/operator pair is applied to a fresh parse
				type site struct {
					n  int
					op string
				}
				var sites []site
				count := 0
				ast.Inspect(fd.Body, func(n ast.Node) bool {
					for _, op := range applicable(n) {
						sites = append(sites, site{count, op})
					}
					count++
					return true
				})
				for _, s := range sites {
					fset2 := token.NewFileSet()
					f2, _ := parser.ParseFile(fset2, path, src, parser.ParseComments)
					var fd2 *ast.FuncDecl
					for _, d2 := range f2.Decls {
						if x, ok := d2.(*ast.FuncDecl); ok && x.Body != nil && funcDeclKey(short, x) == key {
							fd2 = x
						}
					}
					k := 0
					desc := ""
					line := 0
					applyAt := func(n ast.Node) bool {
						if k == s.n {
							desc = mutateNode(n, s.op, fd2)
							if n != nil {
								line = fset2.Position(n.Pos()).Line
							}
						}
						k++
						return true
					}
					ast.Inspect(fd2.Body, applyAt)
					if desc == "" {
						continue
					}
					var buf bytes.Buffer
					if err := format.Node(&buf, fset2, f2); err != nil {
						continue
					}
					rel, _ := filepath.Rel(repo, path)
					id++
					out = append(out, &mutant{ID: id, File: rel, Func: key, Line: line, Op: s.op, Desc: desc, src: buf.Bytes()})
				}
			}
		}
	}
	return out
}

func applicable(n ast.Node) []string {
	switch x := n.(type) {
	case *ast.IfStmt:
		return []string{"negate-if"}
	case *ast.BinaryExpr:
		switch x.Op {
		case token.LSS, token.LEQ, token.GTR, token.GEQ:
			return []string{"rel-boundary", "rel-flip"}
		case token.EQL, token.NEQ:
			return []string{"eq-flip"}
		case token.LAND, token.LOR:
			return []string{"logic-flip", "drop-left", "drop-right"}
		case token.ADD, token.SUB:
			if _, isStr := x.X.(*ast.BasicLit); !isStr {
				return []string{"arith-flip"}
			}
		}
	case *ast.UnaryExpr:
		if x.Op == token.NOT {
			return []string{"drop-not"}
		}
	case *ast.BranchStmt:
		if x.Tok == token.CONTINUE || x.Tok == token.BREAK {
			return []string{"branch-flip"}
		}
	case *ast.BasicLit:
		switch x.Kind {
		case token.INT:
			return []string{"int-inc"}
		case token.STRING:
			if len(x.Value) > 2 {
				return []string{"str-empty"}
			}
		}
	case *ast.Ident:
		if x.Name == "true" || x.Name == "false" {
			return []string{"bool-flip"}
		}
	case *ast.AssignStmt:
		if x.Tok == token.ASSIGN && len(x.Lhs) == 1 {
			return []string{"drop-assign"}
		}
	case *ast.ExprStmt:
		if _, ok := x.X.(*ast.CallExpr); ok {
			return []string{"drop-call"}
		}
	case *ast.BlockStmt:
		return nil
	}
	return nil
}

func mutateNode(n ast.Node, op string, fd *ast.FuncDecl) string {
	switch x := n.(type) {
	case *ast.IfStmt:
		if op == "negate-if" {
			x.Cond = &ast.UnaryExpr{Op: token.NOT, X: &ast.ParenExpr{X: x.Cond}}
			return "negated if condition"
		}
	case *ast.BinaryExpr:
		old := x.Op
		switch op {
		case "rel-boundary":
			x.Op = map[token.Token]token.Token{token.LSS: token.LEQ, token.LEQ: token.LSS, token.GTR: token.GEQ, token.GEQ: token.GTR}[old]
		case "rel-flip":
			x.Op = map[token.Token]token.Token{token.LSS: token.GEQ, token.LEQ: token.GTR, token.GTR: token.LEQ, token.GEQ: token.LSS}[old]
		case "eq-flip":
			x.Op = map[token.Token]token.Token{token.EQL: token.NEQ, token.NEQ: token.EQL}[old]
		case "logic-flip":
			x.Op = map[token.Token]token.Token{token.LAND: token.LOR, token.LOR: token.LAND}[old]
		case "arith-flip":
			x.Op = map[token.Token]token.Token{token.ADD: token.SUB, token.SUB: token.ADD}[old]
		case "drop-left":
			// a && b  ->  b : rewrite as (true && b) / (false || b)
			if old == token.LAND {
				x.X = ast.NewIdent("true")
			} else {
				x.X = ast.NewIdent("false")
			}
			return "dropped left operand of " + old.String()
		case "drop-right":
			if old == token.LAND {
				x.Y = ast.NewIdent("true")
			} else {
				x.Y = ast.NewIdent("false")
			}
			return "dropped right operand of " + old.String()
		}
		if x.Op != old {
			return fmt.Sprintf("%s -> %s", old, x.Op)
		}
	case *ast.UnaryExpr:
		if op == "drop-not" {
			x.Op = token.ADD // placeholder replaced below
			// !e -> e : cannot replace the node itself, so turn it into !!e
			x.Op = token.NOT
			x.X = &ast.UnaryExpr{Op: token.NOT, X: x.X}
			return "dropped negation"
		}
	case *ast.BranchStmt:
		if op == "branch-flip" {
			if x.Tok == token.CONTINUE {
				x.Tok = token.BREAK
				return "continue -> break"
			}
			x.Tok = token.CONTINUE
			return "break -> continue"
		}
	case *ast.BasicLit:
		switch op {
		case "int-inc":
			old := x.Value
			x.Value = "(" + x.Value + " + 1)"
			return old + " -> " + old + "+1"
		case "str-empty":
			old := x.Value
			x.Value = `""`
			return old + ` -> ""`
		}
	case *ast.Ident:
		if op == "bool-flip" {
			if x.Name == "true" {
				x.Name = "false"
				return "true -> false"
			}
			x.Name = "true"
			return "false -> true"
		}
	case *ast.AssignStmt:
		if op == "drop-assign" {
			// x = e  ->  _ = e
			x.Lhs[0] = ast.NewIdent("_")
			return "dropped assignment"
		}
	case *ast.ExprStmt:
		if op == "drop-call" {
			x.X = &ast.CallExpr{Fun: &ast.FuncLit{Type: &ast.FuncType{Params: &ast.FieldList{}}, Body: &ast.BlockStmt{}}}
			return "dropped call statement"
		}
	}
	return ""
}

func cmdMutate(args []string) {
	fs := flag.NewFlagSet("mutate", flag.ExitOnError)
	prop := fs.String("property", "", "property id")
	jobs := fs.Int("jobs", 4, "parallel scratch copies")
	limit := fs.Int("limit", 0, "maximum number of mutants (0 = all)")
	only := fs.String("func", "", "only mutate functions whose key contains this")
	fs.Parse(args)
	var props map[string]*PropConfig
	if err := loadJSON(filepath.Join(verifDir, "props.json"), &props); err != nil || props[*prop] == nil {
		fmt.Fprintln(os.Stderr, "unknown property")
		os.Exit(2)
	}
	var funcs []string
	for _, f := range fnBases(props[*prop].Functions) {
		if strings.Contains(f, "verif") {
			continue // harnesses are not library code
		}
		if *only == "" || strings.Contains(f, *only) {
			funcs = append(funcs, f)
		}
	}
	ms := genMutants(repoDir, funcs)
	if *limit > 0 && len(ms) > *limit {
		// spread over the list
		step := float64(len(ms)) / float64(*limit)
		var sel []*mutant
		for i := 0; i < *limit; i++ {
			sel = append(sel, ms[int(float64(i)*step)])
		}
		ms = sel
	}
	fmt.Printf("%d mutants for %s\n", len(ms), *prop)
	base, err := os.MkdirTemp("", "govc-mut-")
	if err != nil {
		panic(err)
	}
	defer os.RemoveAll(base)
	ch := make(chan *mutant)
	var wg sync.WaitGroup
	var mu sync.Mutex
	for w := 0; w < *jobs; w++ {
		wg.Add(1)
		go func(w int) {
			defer wg.Done()
			repo := filepath.Join(base, fmt.Sprintf("repo%d", w))
			vdir := filepath.Join(base, fmt.Sprintf("verif%d", w))
			exec.Command("cp", "-r", repoDir, repo).Run()
			os.RemoveAll(filepath.Join(repo, ".git"))
			os.MkdirAll(vdir, 0o755)
			for _, n := range []string{"props.json", "baseline_ledger.json", "known_findings.json", "specs", "rt"} {
				os.Symlink(filepath.Join(verifDir, n), filepath.Join(vdir, n))
			}
			env := append(os.Environ(), "GOFLAGS=-mod=mod", "GOPROXY=off", "GOSUMDB=off", "GOTOOLCHAIN=local", "GOVC_REPO="+repo, "GOVC_VERIF="+vdir)
			for m := range ch {
				path := filepath.Join(repo, m.File)
				orig, _ := os.ReadFile(path)
				os.WriteFile(path, m.src, 0o644)
				run := func(name string, a ...string) (string, error) {
					c := exec.Command(name, a...)
					c.Dir = repo
					c.Env = env
					out, err := c.CombinedOutput()
					return string(out), err
				}
				if out, err := run("go", "build", "./..."); err != nil {
					m.Status, m.Detail = "no-build", firstLine(out)
				} else if out, err := run("go", "test", "-vet=off", "-count=1", "./..."); err != nil {
					m.Status, m.Detail = "tests-fail", firstLine(out)
				} else {
					self, _ := os.Executable()
					out, err := run(self, "check", "--property", *prop, "--tier", "quick")
					code := 0
					if ee, ok := err.(*exec.ExitError); ok {
						code = ee.ExitCode()
					} else if err != nil {
						code = 99
					}
					switch code {
					case 0:
						m.Status = "survived"
					case 1:
						m.Status = "killed"
						for _, l := range strings.Split(out, "\n") {
							if strings.HasPrefix(l, "VIOLATION") {
								m.Detail = l
								break
							}
						}
					default:
						m.Status, m.Detail = "engine-fail", firstLine(out)
					}
				}
				os.WriteFile(path, orig, 0o644)
				mu.Lock()
				fmt.Printf("  #%d %-10s %s:%d %s [%s] %s\n", m.ID, m.Status, m.File, m.Line, m.Func, m.Op, m.Desc)
				mu.Unlock()
			}
		}(w)
	}
	for _, m := range ms {
		ch <- m
	}
	close(ch)
	wg.Wait()
	counts := map[string]int{}
	var survivors []*mutant
	for _, m := range ms {
		counts[m.Status]++
		if m.Status == "survived" || m.Status == "engine-fail" {
			survivors = append(survivors, m)
		}
	}
	sort.Slice(survivors, func(i, j int) bool { return survivors[i].ID < survivors[j].ID })
	fmt.Printf("summary %s: %v\n", *prop, counts)
	for _, m := range survivors {
		fmt.Printf("SURVIVOR #%d %s %s:%d %s [%s] %s %s\n", m.ID, m.Status, m.File, m.Line, m.Func, m.Op, m.Desc, m.Detail)
	}
	os.MkdirAll(filepath.Join(verifDir, "selftest"), 0o755)
	data, _ := json.MarshalIndent(map[string]interface{}{"property": *prop, "counts": counts, "mutants": ms}, "", " ")
	os.WriteFile(filepath.Join(verifDir, "selftest", "mutation_"+*prop+".json"), data, 0o644)
}
