package main

import (
	"bytes"
	"context"
	"crypto/sha256"
	"fmt"
	"os"
	"os/exec"
	"path/filepath"
	"strings"
	"sync"
	"time"
)

type solverSpec struct {
	name string
	argv func(timeoutS int, seed int) []string
	pre  string
}

var solvers = []solverSpec{
	{name: "z3-4.8.12", argv: func(t, seed int) []string {
		return []string{"/usr/bin/z3", "-in", fmt.Sprintf("-T:%d", t), fmt.Sprintf("smt.random_seed=%d", seed)}
	}},
	{name: "z3-5.1.0", argv: func(t, seed int) []string {
		return []string{"z3-new", "-in", fmt.Sprintf("-T:%d", t), fmt.Sprintf("smt.random_seed=%d", seed)}
	}},
	{name: "cvc5-1.0", argv: func(t, seed int) []string {
		return []string{"cvc5", "--lang=smt2", "--strings-exp", fmt.Sprintf("--tlimit=%d", t*1000), fmt.Sprintf("--seed=%d", seed)}
	}, pre: "(set-logic ALL)\n"},
}

func runSolver(s solverSpec, query string, timeoutS int, seed int) (result string, out string, secs float64) {
	ctx, cancel := context.WithTimeout(context.Background(), time.Duration(timeoutS+5)*time.Second)
	defer cancel()
	argv := s.argv(timeoutS, seed)
	cmd := exec.CommandContext(ctx, argv[0], argv[1:]...)
	cmd.Stdin = strings.NewReader(s.pre + query)
	var buf bytes.Buffer
	cmd.Stdout = &buf
	cmd.Stderr = &buf
	t0 := time.Now()
	_ = cmd.Run()
	secs = time.Since(t0).Seconds()
	out = buf.String()
	first := strings.TrimSpace(strings.SplitN(out, "\n", 2)[0])
	for _, line := range strings.Split(out, "\n") {
		l := strings.TrimSpace(line)
		if l == "sat" || l == "unsat" || l == "unknown" || l == "timeout" {
			first = l
			break
		}
	}
	switch {
	case first == "unsat", first == "sat", first == "unknown":
		result = first
	case strings.Contains(first, "timeout") || ctx.Err() != nil || strings.Contains(out, "interrupted by timeout"):
		result = "timeout"
	default:
		result = "error"
	}
	return
}

// queryText renders one obligation as a self-contained SMT-LIB script.
func queryText(prelude string, o *Obligation, getModel bool) string {
	var b strings.Builder
	if getModel {
		b.WriteString("(set-option :produce-models true)\n")
	}
	b.WriteString(prelude)
	for _, d := range o.Defs {
		b.WriteString(d)
		b.WriteByte('\n')
	}
	for _, p := range o.PC {
		b.WriteString("(assert ")
		b.WriteString(p)
		b.WriteString(")\n")
	}
	if !o.Cover {
		b.WriteString("(assert (not ")
		b.WriteString(o.Goal)
		b.WriteString("))\n")
	}
	b.WriteString("(check-sat)\n")
	if getModel {
		b.WriteString("(get-model)\n")
	}
	return b.String()
}

type solveOpts struct {
	timeoutS int
	seed     int
	workDir  string
	jobs     int
	stability bool
}

// solveAll discharges obligations in parallel. Identical queries are solved once.
func solveAll(prelude string, obls []*Obligation, opt solveOpts) {
	for _, o := range obls {
		if o.Prelude == nil {
			p := prelude
			o.Prelude = &p
		}
	}
	solvePool(obls, opt)
}

// solveBatches: the ensures clauses of one return point are first tried as one conjunction (one query instead
// of one per clause); only when that is not discharged quickly is each clause decided on its own.
func solveBatches(obls []*Obligation, opt solveOpts) {
	type key struct {
		fn string
		b  int
	}
	groups := map[key][]*Obligation{}
	var order []key
	if os.Getenv("GOVC_NOBATCH") != "" {
		return
	}
	for _, o := range obls {
		if o.Batch == 0 || o.Cover || o.Result != "" {
			continue
		}
		k := key{o.Fn, o.Batch}
		if _, ok := groups[k]; !ok {
			order = append(order, k)
		}
		groups[k] = append(groups[k], o)
	}
	ch := make(chan []*Obligation)
	var wg sync.WaitGroup
	n := opt.jobs
	if n <= 0 {
		n = 16
	}
	for w := 0; w < n; w++ {
		wg.Add(1)
		go func() {
			defer wg.Done()
			for g := range ch {
				comb := &Obligation{Fn: g[0].Fn, Label: "batch", Prelude: g[0].Prelude}
				seen := map[string]bool{}
				var goals []string
				for _, o := range g {
					if len(o.Defs) > len(comb.Defs) {
						comb.Defs = o.Defs
					}
					for _, p := range o.PC {
						if !seen[p] {
							seen[p] = true
							comb.PC = append(comb.PC, p)
						}
					}
					goals = append(goals, o.Goal)
				}
				comb.Goal = "(and " + strings.Join(goals, " ") + ")"
				to := 4
				if opt.timeoutS < to {
					to = opt.timeoutS
				}
				t0 := time.Now()
				r, out, _ := runSolver(solvers[0], queryText(*comb.Prelude, comb, false), to, opt.seed)
				if r == "unsat" {
					secs := time.Since(t0).Seconds() / float64(len(g))
					for _, o := range g {
						o.Result, o.Output, o.Seconds, o.Backend = "unsat", out, secs, solvers[0].name
					}
				}
			}
		}()
	}
	for _, k := range order {
		if len(groups[k]) >= 3 {
			ch <- groups[k]
		}
	}
	close(ch)
	wg.Wait()
}

// solveCovers: reachability guards. One reachable instance per (function, label) suffices, so the instances of a
// label are tried in turn until one is not refuted; the rest are skipped.
func solveCovers(obls []*Obligation, opt solveOpts) {
	type key struct{ fn, label string }
	groups := map[key][]*Obligation{}
	var order []key
	for _, o := range obls {
		if !o.Cover || o.Result != "" {
			continue
		}
		k := key{o.Fn, o.Label}
		if _, ok := groups[k]; !ok {
			order = append(order, k)
		}
		groups[k] = append(groups[k], o)
	}
	ch := make(chan []*Obligation)
	var wg sync.WaitGroup
	n := opt.jobs
	if n <= 0 {
		n = 16
	}
	for w := 0; w < n; w++ {
		wg.Add(1)
		go func() {
			defer wg.Done()
			for g := range ch {
				reached := false
				for _, o := range g {
					if reached {
						o.Result, o.Backend = "skipped", "none"
						continue
					}
					t0 := time.Now()
					r, out, _ := runSolver(solvers[0], queryText(*o.Prelude, o, false), 2, opt.seed)
					o.Result, o.Output, o.Seconds, o.Backend = r, out, time.Since(t0).Seconds(), solvers[0].name
					if r != "unsat" {
						reached = true
					}
					if (r == "unsat" || os.Getenv("GOVC_DUMPALL") != "") && opt.workDir != "" {
						name := strings.NewReplacer("/", "_", ":", "_", "*", "P", "(", "", ")", "", " ", "_", "$", "_").Replace(o.ID())
						os.MkdirAll(opt.workDir, 0o755)
						os.WriteFile(filepath.Join(opt.workDir, fmt.Sprintf("%s.p%s.smt2", name, strings.ReplaceAll(o.Path, ".", "_"))), []byte(queryText(*o.Prelude, o, false)), 0o644)
					}
				}
			}
		}()
	}
	for _, k := range order {
		ch <- groups[k]
	}
	close(ch)
	wg.Wait()
}

func solvePool(obls []*Obligation, opt solveOpts) {
	type job struct {
		text string
		obls []*Obligation
	}
	solveBatches(obls, opt)
	solveCovers(obls, opt)
	byHash := map[[32]byte]*job{}
	var jobs []*job
	for _, o := range obls {
		if o.Cover && o.Result != "" {
			continue
		}
		if o.Result == "unsat" && o.Batch != 0 {
			continue // discharged as part of its batch
		}
		if o.Goal == "true" && !o.Cover {
			o.Result, o.Backend = "unsat", "trivial"
			continue
		}
		t := queryText(*o.Prelude, o, false)
		h := sha256.Sum256([]byte(t))
		if j, ok := byHash[h]; ok {
			j.obls = append(j.obls, o)
			continue
		}
		j := &job{text: t, obls: []*Obligation{o}}
		byHash[h] = j
		jobs = append(jobs, j)
	}
	ch := make(chan *job)
	var wg sync.WaitGroup
	n := opt.jobs
	if n <= 0 {
		n = 16
	}
	for w := 0; w < n; w++ {
		wg.Add(1)
		go func() {
			defer wg.Done()
			for j := range ch {
				var res, out, be string
				var secs float64
				if j.obls[0].Cover {
					// reachability: anything but unsat is fine, a short run suffices
					res, out, secs = runSolver(solvers[0], j.text, 2, opt.seed)
					be = solvers[0].name
				} else {
					res, out, secs, be = solveOne(j.text, opt)
				}
				for _, o := range j.obls {
					o.Result, o.Output, o.Seconds, o.Backend = res, out, secs, be
				}
				if ((res != "unsat" && !j.obls[0].Cover) || os.Getenv("GOVC_DUMPALL") != "") && opt.workDir != "" {
					o := j.obls[0]
					name := strings.NewReplacer("/", "_", ":", "_", "*", "P", "(", "", ")", "", " ", "_", "$", "_").Replace(o.ID())
					os.MkdirAll(opt.workDir, 0o755)
					if len(name) > 80 {
						name = name[:80]
					}
					h := sha256.Sum256([]byte(j.text))
					os.WriteFile(filepath.Join(opt.workDir, fmt.Sprintf("%s.%x.smt2", name, h[:6])), []byte(j.text), 0o644)
				}
			}
		}()
	}
	for _, j := range jobs {
		ch <- j
	}
	close(ch)
	wg.Wait()
}

// solveOne: quick attempt on z3 4.8, then race all three solvers.
func solveOne(text string, opt solveOpts) (result, out string, secs float64, backend string) {
	quick := 2
	if opt.timeoutS < quick {
		quick = opt.timeoutS
	}
	t0 := time.Now()
	r, o, _ := runSolver(solvers[0], text, quick, opt.seed)
	if r == "unsat" || r == "sat" {
		return r, o, time.Since(t0).Seconds(), solvers[0].name
	}
	type ans struct {
		r, o, be string
	}
	ctxDone := make(chan struct{})
	resCh := make(chan ans, len(solvers))
	for _, s := range solvers {
		s := s
		go func() {
			r, o, _ := runSolver(s, text, opt.timeoutS, opt.seed)
			select {
			case resCh <- ans{r, o, s.name}:
			case <-ctxDone:
			}
		}()
	}
	best := ans{r: "unknown", o: o, be: "none"}
	for i := 0; i < len(solvers); i++ {
		a := <-resCh
		if a.r == "unsat" {
			close(ctxDone)
			return "unsat", a.o, time.Since(t0).Seconds(), a.be
		}
		if a.r == "sat" && best.r != "sat" {
			best = a
		} else if best.r != "sat" && a.r != "error" {
			if best.be == "none" || best.r == "error" {
				best = a
			}
		} else if best.be == "none" {
			best = a
		}
	}
	close(ctxDone)
	return best.r, best.o, time.Since(t0).Seconds(), best.be
}
