package main

import (
	"fmt"
	"go/types"
	"strings"

	"golang.org/x/tools/go/ssa"
)

type LocKind int

const (
	locNone   LocKind = iota // abstracted pointer
	locCell                  // non-escaping local variable
	locHeap                  // object in a typed heap (struct fields or single cell)
	locElem                  // element of a slice / array backing store
	locGlobal                // package-level variable
	locArr                   // pointer to a whole array object (backing store Ref)
)

// Loc is a structured pointer value.
type Loc struct {
	Kind LocKind
	Cell cellKey    // locCell
	Ref  string     // locHeap: object ref; locElem/locArr: base ref
	Idx  string     // locElem: absolute index
	Root types.Type // type of the root container the path starts in
	Path []int      // field path below Root
	Name string     // locGlobal
}

func (l *Loc) extend(f int) *Loc {
	n := *l
	n.Path = append(append([]int(nil), l.Path...), f)
	return &n
}

// typeAt returns the type designated by the location (root type followed along path).
func (l *Loc) typeAt() types.Type {
	t := l.Root
	for _, f := range l.Path {
		t = t.Underlying().(*types.Struct).Field(f).Type()
	}
	return t
}

// Val is a symbolic Go value.
type Val struct {
	T     types.Type
	GS    string // ghost (raw SMT) sort when T is nil
	Term  string
	Loc   *Loc
	Tup   []Val
	Taint bool
}

type cellKey struct {
	frame int
	v     ssa.Value
}

type plist struct {
	items []string
}

// State is the symbolic state along one path.
type State struct {
	cells  map[cellKey]Val
	regs   map[cellKey]Val
	heaps  map[string]string // heap / ghost / global name -> current term
	alloc  string
	pc     []string
	defs   []string
	defers map[int][]deferred
	taint  bool // control flow depended on an abstracted value
	trace  []string
	facts  int
}

type deferred struct {
	call *ssa.CallCommon
	args []Val
	fn   Val
	pos  ssa.Instruction
}

func newState() *State {
	return &State{cells: map[cellKey]Val{}, regs: map[cellKey]Val{}, heaps: map[string]string{}, defers: map[int][]deferred{}}
}

func (s *State) clone() *State {
	n := &State{cells: make(map[cellKey]Val, len(s.cells)), regs: make(map[cellKey]Val, len(s.regs)), heaps: make(map[string]string, len(s.heaps)), defers: map[int][]deferred{}}
	for k, v := range s.cells {
		n.cells[k] = v
	}
	for k, v := range s.regs {
		n.regs[k] = v
	}
	for k, v := range s.heaps {
		n.heaps[k] = v
	}
	for k, v := range s.defers {
		n.defers[k] = append([]deferred(nil), v...)
	}
	n.alloc = s.alloc
	n.pc = s.pc[:len(s.pc):len(s.pc)]
	n.defs = s.defs[:len(s.defs):len(s.defs)]
	n.trace = s.trace[:len(s.trace):len(s.trace)]
	n.taint = s.taint
	return n
}

func (s *State) assume(f string) {
	if f == "true" || f == "" {
		return
	}
	s.pc = append(s.pc, f)
}

func (s *State) def(line string) {
	s.defs = append(s.defs, line)
}

// Exec carries everything needed to symbolically execute one top-level function.
type Exec struct {
	P   *Program
	C   *Ctx
	Lib *Library // contracts, specs
	// results
	obls     []*Obligation
	paths    int
	maxPaths int
	nframes  int
	errs     []string
	heapSort map[string]string // heap name -> sort
	top      *Frame
	abstr    map[string]bool // abstracted constructs encountered (class A reasons)
	quiet    int             // >0: loads add no assumptions (contract evaluation)
	recorders []map[string]bool
	specRec   map[string]bool
	specInfo  map[string]*specInfo
	typeCache map[string]types.Type
	rawFuncs  map[string]string // raw SMT functions usable in contracts: name -> result type
	mods      map[*ssa.Function]*modSet
	cond      []condDecl // conditional prelude facts (smt when ...)
	closures  map[string]*closureInfo
	selfVal   *Val // the function value of the call through a function type being processed
	batchSeq  int
	known     map[string]string // heap version "|" reference -> term stored there last
	externTypes map[string][]types.Type
	callOrd   map[string]int
	reveal    map[string]bool
	alloc0    string
	revealAll bool
	curFn     string
}

// Frame is one function activation.
type Frame struct {
	id       int
	fn       *ssa.Function
	con      *FuncContract
	depth    int
	ret      func(st *State, results []Val)
	loops    map[*ssa.BasicBlock]*loopInfo
	names    map[string][]ssa.Value // source name -> allocs in order of appearance
	entry    *State                 // snapshot at entry (for old())
	params   map[string]Val         // entry values of parameters
	allocIn  string                 // alloc counter at entry
	escaping map[*ssa.Alloc]bool
	inlined  bool
	parent   *Frame
	recvName string
}

type Obligation struct {
	Fn      string // function key
	Label   string // clause label (stable id within function)
	Kind    string // ensures, requires@call, invariant-init, invariant-preserve, safety-..., frame, lemma
	Path    string
	Defs    []string
	PC      []string
	Goal    string
	Taint   bool
	Pos     string
	Prelude *string
	Cover   bool   // reachability query: the path condition itself must not be unsat
	Batch   int    // ensures clauses checked at the same return share a batch: tried as one conjunction first
	Result  string // unsat, sat, unknown, timeout
	Backend string
	Seconds float64
	Output  string
}

func (o *Obligation) ID() string { return o.Fn + "/" + o.Label }

func (x *Exec) newSym(st *State, prefix string, sort string) string {
	n := x.C.freshName(prefix)
	st.def(fmt.Sprintf("(declare-const %s %s)", n, sort))
	return n
}

// bind a (possibly large) term to a fresh name to keep queries small
func (x *Exec) bind(st *State, prefix string, sort string, term string) string {
	if len(term) < 120 {
		return term
	}
	n := x.C.freshName(prefix)
	st.def(fmt.Sprintf("(define-fun %s () %s %s)", n, sort, term))
	return n
}

func (x *Exec) havocVal(st *State, prefix string, t types.Type) Val {
	v := Val{T: t, Term: x.newSym(st, prefix, x.C.sortOf(t))}
	x.assumeTypeInv(st, v)
	return v
}

// heap access: current version of a heap array (declared on first use)
func (x *Exec) heap(st *State, name, sort string) string {
	for _, r := range x.recorders {
		r[name] = true
	}
	if t, ok := st.heaps[name]; ok {
		return t
	}
	fr, pending := st.heaps["pending:"+name]
	if _, all := st.heaps["pending:*"]; all && !pending {
		fr, pending = "full", true
	}
	if pending {
		// the heap was havocked (by a call or a loop) before it was first touched on this path: its current
		// version must differ from the initial one that old() and other paths see
		delete(st.heaps, "pending:"+name)
		if old, ok := x.heapSort[name]; ok && old != sort {
			panic(fmt.Sprintf("heap %s sort mismatch %s vs %s", name, old, sort))
		}
		x.heapSort[name] = sort
		init := "|" + name + "!0|"
		x.C.decl(fmt.Sprintf("(declare-const %s %s)", init, sort))
		if strings.HasPrefix(name, "G_") {
			x.globalInit(name, init)
		}
		x.closedness(name, init)
		n := x.C.freshName(name)
		// declared for the whole run: the term may be used by another state (old() is evaluated in a clone)
		x.C.decl(fmt.Sprintf("(declare-const %s %s)", n, sort))
		st.heaps[name] = n
		if fr != "full" && strings.HasPrefix(sort, "(Array Int ") {
			// frame: contents below the recorded allocation frontier are unchanged
			st.assume(fmt.Sprintf("(forall ((r Int)) (! (=> (< r %s) (= (select %s r) (select %s r))) :pattern ((select %s r))))", fr, n, init, n))
		}
		return n
	}
	if old, ok := x.heapSort[name]; ok && old != sort {
		panic(fmt.Sprintf("heap %s sort mismatch %s vs %s", name, old, sort))
	}
	x.heapSort[name] = sort
	init := "|" + name + "!0|"
	x.C.decl(fmt.Sprintf("(declare-const %s %s)", init, sort))
	if strings.HasPrefix(name, "G_") {
		x.globalInit(name, init)
	}
	x.closedness(name, init)
	st.heaps[name] = init
	return init
}

// closedness: the heap a function starts in holds no reference to memory allocated later
// (every reference stored in it is below the entry allocation frontier).
func (x *Exec) closedness(name, init string) {
	hi, ok := x.C.heapVal[name]
	if !ok || x.alloc0 == "" {
		return
	}
	var sel, vars string
	if hi.dims == 1 {
		sel = fmt.Sprintf("(select %s r)", init)
		vars = "(r Int)"
	} else {
		ks := "Int"
		if hi.key != nil {
			ks = x.C.sortOf(hi.key)
		}
		sel = fmt.Sprintf("(select (select %s r) k)", init)
		vars = fmt.Sprintf("(r Int) (k %s)", ks)
	}
	c := x.closedTerm(hi.t, sel, 3, x.alloc0)
	if c == "true" {
		return
	}
	x.C.decl(fmt.Sprintf("(assert (forall (%s) (! %s :pattern (%s))))", vars, c, sel))
}

// closedAt: the same fact for a havocked heap version: every reference stored in it exists now.
func (x *Exec) closedAt(st *State, name string) {
	hi, ok := x.C.heapVal[name]
	if !ok {
		return
	}
	h := st.heaps[name]
	var sel, vars string
	if hi.dims == 1 {
		sel = fmt.Sprintf("(select %s r)", h)
		vars = "(r Int)"
	} else {
		ks := "Int"
		if hi.key != nil {
			ks = x.C.sortOf(hi.key)
		}
		sel = fmt.Sprintf("(select (select %s r) k)", h)
		vars = fmt.Sprintf("(r Int) (k %s)", ks)
	}
	c := x.closedTerm(hi.t, sel, 3, st.alloc)
	if c == "true" {
		return
	}
	st.assume(fmt.Sprintf("(forall (%s) (! %s :pattern (%s)))", vars, c, sel))
}

func (x *Exec) closedTerm(t types.Type, term string, depth int, bound string) string {
	if isTimeType(t) || isByteSlice(t) {
		return "true"
	}
	switch u := t.Underlying().(type) {
	case *types.Slice:
		return fmt.Sprintf("(< (s_base %s) %s)", term, bound)
	case *types.Pointer, *types.Map, *types.Chan, *types.Signature:
		return fmt.Sprintf("(< %s %s)", term, bound)
	case *types.Struct:
		if depth <= 0 {
			return "true"
		}
		var cs []string
		for i := 0; i < u.NumFields(); i++ {
			cs = append(cs, x.closedTerm(u.Field(i).Type(), fmt.Sprintf("(%s %s)", x.C.selName(t, i), term), depth-1, bound))
		}
		return and(cs...)
	}
	return "true"
}

func (x *Exec) setHeap(st *State, name, sort, term string) {
	x.heap(st, name, sort)
	n := x.C.freshName(name)
	st.def(fmt.Sprintf("(define-fun %s () %s %s)", n, sort, term))
	st.heaps[name] = n
}

func (x *Exec) havocHeap(st *State, name string) {
	sort, ok := x.heapSort[name]
	if !ok {
		// never read or written so far in this run: remember that the version this path sees from now on
		// is not the initial one (materialised at the first access, see heap)
		x.markPending(st, name, "full")
		return
	}
	if _, touched := st.heaps[name]; !touched {
		if _, pend := st.heaps["pending:"+name]; pend {
			return
		}
	}
	n := x.C.freshName(name)
	st.def(fmt.Sprintf("(declare-const %s %s)", n, sort))
	st.heaps[name] = n
}

// markPending records a havoc of a heap that has no version on this path yet. frontier is the allocation
// frontier below which the contents are known to be unchanged, or "full". The weakest marker wins.
func (x *Exec) markPending(st *State, name, frontier string) {
	if cur, ok := st.heaps["pending:"+name]; ok && (cur == "full" || frontier != "full") {
		return
	}
	st.heaps["pending:"+name] = frontier
}

// assumeTypeInv adds the type invariant of a value entering the state.
func (x *Exec) assumeTypeInv(st *State, v Val) {
	if v.Term == "" || v.T == nil || x.quiet > 0 {
		return
	}
	st.assume(x.typeInv(v.T, v.Term, 2))
}

func (x *Exec) typeInv(t types.Type, term string, depth int) string {
	if isTimeType(t) || isByteSlice(t) {
		return "true"
	}
	switch u := t.Underlying().(type) {
	case *types.Basic:
		if u.Info()&types.IsUnsigned != 0 {
			return fmt.Sprintf("(>= %s 0)", term)
		}
	case *types.Slice, *types.Array:
		return fmt.Sprintf("(and (<= 0 (s_len %s)) (<= (s_len %s) (s_cap %s)) (<= (s_cap %s) 9223372036854775807) (>= (s_base %s) 0) (=> (= (s_base %s) 0) (= (s_cap %s) 0)))", term, term, term, term, term, term, term)
	case *types.Pointer, *types.Map, *types.Signature, *types.Chan:
		return fmt.Sprintf("(>= %s 0)", term)
	case *types.Interface:
		return fmt.Sprintf("(and (>= (i_tag %s) 0) (=> (= (i_tag %s) 0) (= (i_val %s) 0)))", term, term, term)
	case *types.Struct:
		if depth <= 0 {
			return "true"
		}
		var cs []string
		for i := 0; i < u.NumFields(); i++ {
			cs = append(cs, x.typeInv(u.Field(i).Type(), fmt.Sprintf("(%s %s)", x.C.selName(t, i), term), depth-1))
		}
		return and(cs...)
	}
	return "true"
}

// ---------------------------------------------------------------------------
// locations: load / store

func (x *Exec) containerHeap(st *State, l *Loc) (name, sort string, rest []int, rootT types.Type) {
	switch l.Kind {
	case locHeap:
		if _, ok := l.Root.Underlying().(*types.Struct); ok && !isTimeType(l.Root) && len(l.Path) > 0 {
			f := l.Path[0]
			return x.C.heapFieldName(l.Root, f), x.C.heapFieldSort(l.Root, f), l.Path[1:], l.Root.Underlying().(*types.Struct).Field(f).Type()
		}
		return x.C.heapCellName(l.Root), fmt.Sprintf("(Array Int %s)", x.C.sortOf(l.Root)), l.Path, l.Root
	case locElem:
		return x.C.elemHeapName(l.Root), x.C.elemHeapSort(l.Root), l.Path, l.Root
	}
	panic("containerHeap")
}

// selectPath projects a struct term along a field path.
func (x *Exec) selectPath(t types.Type, term string, path []int) (string, types.Type) {
	for _, f := range path {
		x.C.sortOf(t)
		term = fmt.Sprintf("(%s %s)", x.C.selName(t, f), term)
		t = t.Underlying().(*types.Struct).Field(f).Type()
	}
	return term, t
}

func (x *Exec) updatePath(t types.Type, base string, path []int, nv string) string {
	if len(path) == 0 {
		return nv
	}
	u := t.Underlying().(*types.Struct)
	x.C.sortOf(t)
	var args []string
	for i := 0; i < u.NumFields(); i++ {
		sel := fmt.Sprintf("(%s %s)", x.C.selName(t, i), base)
		if i == path[0] {
			args = append(args, x.updatePath(u.Field(i).Type(), sel, path[1:], nv))
		} else {
			args = append(args, sel)
		}
	}
	return x.C.mkStruct(t, args)
}

func isStructT(t types.Type) bool {
	_, ok := t.Underlying().(*types.Struct)
	return ok && !isTimeType(t)
}

// loadLoc reads the value designated by l.
func (x *Exec) loadLoc(st *State, l *Loc) Val {
	t := l.typeAt()
	switch l.Kind {
	case locCell:
		root, ok := st.cells[l.Cell]
		if !ok {
			panic(fmt.Sprintf("load from unset cell %v", l.Cell.v))
		}
		if len(l.Path) == 0 {
			return root
		}
		if root.Loc != nil || root.Tup != nil {
			panic("path into pointer cell")
		}
		term, ty := x.selectPath(l.Root, root.Term, l.Path)
		v := Val{T: ty, Term: term, Taint: root.Taint}
		return v
	case locHeap:
		if isStructT(l.Root) && len(l.Path) == 0 {
			// whole struct from the field heaps
			u := l.Root.Underlying().(*types.Struct)
			var args []string
			for i := 0; i < u.NumFields(); i++ {
				h := x.heap(st, x.C.heapFieldName(l.Root, i), x.C.heapFieldSort(l.Root, i))
				args = append(args, fmt.Sprintf("(select %s %s)", h, l.Ref))
			}
			v := Val{T: l.Root, Term: x.C.mkStruct(l.Root, args)}
			return v
		}
		name, sort, rest, ct := x.containerHeap(st, l)
		h := x.heap(st, name, sort)
		term, ty := x.selectPath(ct, fmt.Sprintf("(select %s %s)", h, l.Ref), rest)
		if kt, ok := x.known[h+"|"+l.Ref]; ok && len(rest) == 0 {
			term = kt // the value stored last into this very heap version at this reference
		}
		v := Val{T: ty, Term: term}
		x.assumeLoaded(st, v)
		return v
	case locElem:
		name, sort, rest, ct := x.containerHeap(st, l)
		h := x.heap(st, name, sort)
		term, ty := x.selectPath(ct, fmt.Sprintf("(select (select %s %s) %s)", h, l.Ref, l.Idx), rest)
		v := Val{T: ty, Term: term}
		x.assumeLoaded(st, v)
		return v
	case locGlobal:
		name := "G_" + mangle(l.Name)
		h := x.heap(st, name, x.C.sortOf(l.Root))
		term, ty := x.selectPath(l.Root, h, l.Path)
		v := Val{T: ty, Term: term}
		x.assumeLoaded(st, v)
		return v
	case locArr:
		// array value: slice header over the backing store
		n := l.Root.Underlying().(*types.Array).Len()
		return Val{T: l.Root, Term: fmt.Sprintf("(mkSlice %s %d %d)", l.Ref, n, n)}
	}
	_ = t
	x.abstr["load through abstracted pointer"] = true
	hv := x.havocVal(st, "absload", t)
	hv.Taint = true
	return hv
}

// assumeLoaded adds the type invariant and the "no dangling reference" fact for loaded values.
func (x *Exec) assumeLoaded(st *State, v Val) {
	if v.T == nil || x.quiet > 0 {
		return
	}
	switch v.T.Underlying().(type) {
	case *types.Slice:
		if isByteSlice(v.T) {
			return
		}
		st.assume(x.typeInv(v.T, v.Term, 0))
		st.assume(fmt.Sprintf("(< (s_base %s) %s)", v.Term, st.alloc))
	case *types.Pointer, *types.Map, *types.Chan, *types.Signature:
		st.assume(fmt.Sprintf("(and (>= %s 0) (< %s %s))", v.Term, v.Term, st.alloc))
	case *types.Basic:
		st.assume(x.typeInv(v.T, v.Term, 0))
	case *types.Interface:
		st.assume(x.typeInv(v.T, v.Term, 0))
	}
}

// termOf returns an SMT term for a value (pointers with structure only when they are plain refs).
func (x *Exec) termOf(st *State, v Val) (string, bool) {
	if v.Loc == nil {
		return v.Term, v.Term != ""
	}
	l := v.Loc
	if l.Kind == locHeap && len(l.Path) == 0 {
		return l.Ref, true
	}
	return "", false
}

func (x *Exec) storeLoc(st *State, l *Loc, v Val) {
	switch l.Kind {
	case locCell:
		if len(l.Path) == 0 {
			st.cells[l.Cell] = v
			return
		}
		root := st.cells[l.Cell]
		term, ok := x.termOf(st, v)
		if !ok {
			panic("store of structured pointer into struct cell")
		}
		nt := x.updatePath(l.Root, root.Term, l.Path, term)
		nt = x.bind(st, "cell", x.C.sortOf(l.Root), nt)
		st.cells[l.Cell] = Val{T: l.Root, Term: nt, Taint: root.Taint || v.Taint}
		return
	case locHeap:
		if isStructT(l.Root) && len(l.Path) == 0 {
			u := l.Root.Underlying().(*types.Struct)
			for i := 0; i < u.NumFields(); i++ {
				name, sort := x.C.heapFieldName(l.Root, i), x.C.heapFieldSort(l.Root, i)
				h := x.heap(st, name, sort)
				x.setHeap(st, name, sort, fmt.Sprintf("(store %s %s (%s %s))", h, l.Ref, x.C.selName(l.Root, i), v.Term))
			}
			return
		}
		term, ok := x.termOf(st, v)
		if !ok {
			x.abstr["interior pointer stored to heap"] = true
			st.taint = true
			term = x.newSym(st, "absptr", "Int")
		}
		name, sort, rest, ct := x.containerHeap(st, l)
		h := x.heap(st, name, sort)
		nv := term
		if len(rest) > 0 {
			nv = x.updatePath(ct, fmt.Sprintf("(select %s %s)", h, l.Ref), rest, term)
		}
		x.setHeap(st, name, sort, fmt.Sprintf("(store %s %s %s)", h, l.Ref, nv))
		if len(rest) == 0 {
			// remembered for syntactic read-back (devirtualisation needs the boxed value as written)
			x.known[st.heaps[name]+"|"+l.Ref] = nv
		}
		return
	case locElem:
		term, ok := x.termOf(st, v)
		if !ok {
			x.abstr["interior pointer stored to heap"] = true
			st.taint = true
			term = x.newSym(st, "absptr", "Int")
		}
		name, sort, rest, ct := x.containerHeap(st, l)
		h := x.heap(st, name, sort)
		nv := term
		if len(rest) > 0 {
			nv = x.updatePath(ct, fmt.Sprintf("(select (select %s %s) %s)", h, l.Ref, l.Idx), rest, term)
		}
		x.setHeap(st, name, sort, fmt.Sprintf("(store %s %s (store (select %s %s) %s %s))", h, l.Ref, h, l.Ref, l.Idx, nv))
		return
	case locGlobal:
		name := "G_" + mangle(l.Name)
		sort := x.C.sortOf(l.Root)
		h := x.heap(st, name, sort)
		term, _ := x.termOf(st, v)
		x.setHeap(st, name, sort, x.updatePath(l.Root, h, l.Path, term))
		return
	}
	// store through an abstracted pointer: havoc every heap that could hold a value of this type
	x.abstr["store through abstracted pointer"] = true
	st.taint = true
	for name := range x.heapSort {
		x.havocHeap(st, name)
	}
}

// newObject allocates a fresh reference.
func (x *Exec) newRef(st *State) string {
	r := x.C.freshName("ref")
	st.def(fmt.Sprintf("(define-fun %s () Int %s)", r, st.alloc))
	a := x.C.freshName("alloc")
	st.def(fmt.Sprintf("(define-fun %s () Int (+ %s 1))", a, r))
	st.alloc = a
	return r
}

func describe(v ssa.Value) string {
	if v == nil {
		return "<nil>"
	}
	return strings.TrimSpace(v.Name() + " = " + v.String())
}
