package main

import (
	"encoding/json"
	"flag"
	"fmt"
	"os"
	"os/exec"
	"path/filepath"
	"regexp"
	"sort"
	"strconv"
	"strings"
	"time"
)

var verifDir = func() string {
	if d := os.Getenv("GOVC_VERIF"); d != "" {
		return d
	}
	return "/verif"
}()

// PropConfig: /verif/props.json entry
type PropConfig struct {
	Functions    []string `json:"functions"`
	Lemmas       []string `json:"lemmas"`
	Schema       []string `json:"schema"`
	NoFailDecode []string `json:"nofail_decode"`
	NotDecided   []string `json:"not_decided_clauses"`
	Assumes      []string `json:"assumes"`
	Note         string   `json:"note"`
	Bounded      []string `json:"bounded"`
}

type FuncResult struct {
	Key     string
	Err     string
	Obls    []*Obligation
	Prelude string
	Abstr   []string
	Used    []string
	Warn    []string
	GenSecs float64
}

// Group: clause-level obligation (all path instances of one stable id)
type Group struct {
	ID         string
	Kind       string
	Instances  int
	Discharged int
	Failed     []*Obligation
	Backends   map[string]int
	Seconds    float64
	Taint      bool
	Cover      bool
}

func loadLibrary() (*Library, error) {
	L := newLibrary()
	if err := L.loadAll(repoDir, filepath.Join(verifDir, "specs")); err != nil {
		return nil, err
	}
	var known []KnownFinding
	loadJSON(filepath.Join(verifDir, "known_findings.json"), &known)
	for _, kf := range known {
		if kf.Status == "open" {
			for _, id := range strings.Split(kf.Obligation, ",") {
				L.OpenFindings[strings.TrimSpace(id)] = true
			}
		}
	}
	return L, nil
}

func verifyFunctions(P *Program, L *Library, keys []string, opt solveOpts) []*FuncResult {
	var out []*FuncResult
	for _, spec := range keys {
		// "key~regexp": only the obligations of key whose label matches belong to the property
		k, only := splitFnSpec(spec)
		t0 := time.Now()
		x := newExec(P, L)
		x.closures = map[string]*closureInfo{}
		x.known = map[string]string{}
		fr := &FuncResult{Key: k}
		if err := x.verifyFunc(k); err != nil {
			fr.Err = err.Error()
		}
		for _, e := range x.errs {
			if fr.Err == "" {
				fr.Err = e
			}
		}
		fr.Obls = x.obls
		if only != nil {
			var keep []*Obligation
			for _, o := range x.obls {
				if o.Cover || only.MatchString(o.Label) {
					keep = append(keep, o)
				}
			}
			fr.Obls = keep
		}
		fr.Prelude = x.prelude()
		fr.Abstr = sortedKeys(x.abstr)
		fr.Used = sortedKeys(x.C.used)
		fr.Warn = sortedKeys(x.C.warnings)
		fr.GenSecs = time.Since(t0).Seconds()
		out = append(out, fr)
	}
	// solve everything in one pool
	type item struct {
		fr *FuncResult
	}
	var all []*Obligation
	for _, fr := range out {
		for _, o := range fr.Obls {
			o.Prelude = &fr.Prelude
			all = append(all, o)
		}
	}
	solvePool(all, opt)
	return out
}

func splitFnSpec(spec string) (string, *regexp.Regexp) {
	if i := strings.Index(spec, "~"); i >= 0 {
		return spec[:i], regexp.MustCompile(spec[i+1:])
	}
	return spec, nil
}

func fnBases(specs []string) []string {
	var out []string
	seen := map[string]bool{}
	for _, s := range specs {
		k, _ := splitFnSpec(s)
		if !seen[k] {
			seen[k] = true
			out = append(out, k)
		}
	}
	return out
}

func groupObligations(frs []*FuncResult) []*Group {
	m := map[string]*Group{}
	var order []string
	for _, fr := range frs {
		for _, o := range fr.Obls {
			id := o.ID()
			g := m[id]
			if g == nil {
				g = &Group{ID: id, Kind: o.Kind, Backends: map[string]int{}}
				m[id] = g
				order = append(order, id)
			}
			g.Instances++
			g.Seconds += o.Seconds
			if o.Taint {
				g.Taint = true
			}
			if o.Cover {
				// reachable unless proved unreachable; the group holds if some instance is reachable
				g.Cover = true
				if o.Result != "unsat" {
					g.Discharged++
					g.Backends[o.Backend]++
				}
				continue
			}
			if o.Result == "unsat" {
				g.Discharged++
				g.Backends[o.Backend]++
			} else {
				g.Failed = append(g.Failed, o)
			}
		}
	}
	var out []*Group
	for _, id := range order {
		g := m[id]
		if g.Cover && g.Discharged == 0 {
			// every return path is unreachable: the contract is vacuous
			g.Failed = append(g.Failed, &Obligation{Fn: g.ID, Label: "cover", Kind: "cover", Result: "vacuous", Output: "no return of the function is reachable under its preconditions and assumed contracts"})
		}
		out = append(out, g)
	}
	return out
}

func cmdVerify(args []string) {
	fs := flag.NewFlagSet("verify", flag.ExitOnError)
	timeout := fs.Int("timeout", 10, "solver timeout (s)")
	verbose := fs.Bool("v", false, "list every instance")
	dump := fs.String("dump", "", "directory for failing queries")
	fs.Parse(args)
	P, err := loadProgram()
	if err != nil {
		fmt.Fprintln(os.Stderr, "ENGINE-FAIL:", err)
		os.Exit(3)
	}
	L, err := loadLibrary()
	if err != nil {
		fmt.Fprintln(os.Stderr, "ENGINE-FAIL:", err)
		os.Exit(3)
	}
	keys := fs.Args()
	frs := verifyFunctions(P, L, keys, solveOpts{timeoutS: *timeout, workDir: *dump})
	bad := 0
	for _, fr := range frs {
		fmt.Printf("== %s: %d instances, gen %.2fs\n", fr.Key, len(fr.Obls), fr.GenSecs)
		if fr.Err != "" {
			fmt.Printf("   ERROR: %s\n", fr.Err)
			bad++
		}
		for _, a := range fr.Abstr {
			fmt.Printf("   abstracted: %s\n", a)
		}
		for _, g := range groupObligations([]*FuncResult{fr}) {
			status := "ok"
			if len(g.Failed) > 0 {
				status = "FAILED"
				bad++
			}
			fmt.Printf("   %-7s %-60s %d/%d %.2fs %v\n", status, g.ID, g.Discharged, g.Instances, g.Seconds, g.Backends)
			for i, o := range g.Failed {
				if i >= 3 {
					fmt.Printf("           ... %d more\n", len(g.Failed)-3)
					break
				}
				fmt.Printf("           %s at %s path %s (%s via %s)\n", o.Result, o.Pos, o.Path, firstLine(o.Output), o.Backend)
			}
		}
		if *verbose {
			for _, o := range fr.Obls {
				fmt.Printf("      %s %s %s %s\n", o.Result, o.ID(), o.Pos, o.Goal)
			}
		}
	}
	if bad > 0 {
		os.Exit(1)
	}
}

func firstLine(s string) string {
	s = strings.TrimSpace(s)
	if i := strings.IndexByte(s, '\n'); i >= 0 {
		s = s[:i]
	}
	if len(s) > 160 {
		s = s[:160]
	}
	return s
}

// ---------------------------------------------------------------------------
// property checks

type KnownFinding struct {
	Property   string `json:"property"`
	Obligation string `json:"obligation"`
	What       string `json:"what"`
	Status     string `json:"status"` // open | fixed
	Commit     string `json:"commit,omitempty"`
	// Region: contract-language formula over the function's inputs describing exactly the failing
	// corner; the obligation is re-posed outside this region.
	Region string `json:"region,omitempty"`
}

func loadJSON(path string, v interface{}) error {
	data, err := os.ReadFile(path)
	if err != nil {
		return err
	}
	return json.Unmarshal(data, v)
}

func cmdCheck(args []string) {
	fs := flag.NewFlagSet("check", flag.ExitOnError)
	prop := fs.String("property", "", "property id")
	tier := fs.String("tier", "", "quick|thorough")
	fs.Parse(args)
	if *tier == "" {
		*tier = os.Getenv("VERIF_TIER")
	}
	if *tier == "" {
		*tier = "quick"
	}
	seed := 0
	if s := os.Getenv("VERIF_SEED"); s != "" {
		seed, _ = strconv.Atoi(s)
	}
	os.Exit(runCheck(*prop, *tier, seed))
}

func runCheck(prop, tier string, seed int) int {
	t0 := time.Now()
	engineFail := func(format string, a ...interface{}) int {
		msg := fmt.Sprintf(format, a...)
		fmt.Printf("ENGINE-FAIL property=%s %s\n", prop, msg)
		writeEvidence(prop, tier, seed, nil, nil, nil, time.Since(t0).Seconds(), 0, []string{"ENGINE-FAIL: " + msg}, nil)
		return 3
	}
	var props map[string]*PropConfig
	if err := loadJSON(filepath.Join(verifDir, "props.json"), &props); err != nil {
		return engineFail("props.json: %v", err)
	}
	pc := props[prop]
	if pc == nil {
		return engineFail("unknown property")
	}
	P, err := loadProgram()
	if err != nil {
		return engineFail("loading /repo: %v", err)
	}
	L, err := loadLibrary()
	if err != nil {
		return engineFail("contracts: %v", err)
	}
	timeout := 20
	if tier == "thorough" {
		timeout = 60
	}
	work := filepath.Join(verifDir, "work", prop)
	os.RemoveAll(work)
	frs := verifyFunctions(P, L, pc.Functions, solveOpts{timeoutS: timeout, seed: seed, workDir: work})
	// lemmas and schema obligations
	frs = append(frs, verifyLemmas(P, L, pc.Lemmas, solveOpts{timeoutS: timeout, seed: seed, workDir: work})...)
	if len(pc.Schema) > 0 {
		frs = append(frs, checkSchema(P, pc.Schema)...)
	}
	if len(pc.NoFailDecode) > 0 {
		frs = append(frs, checkNoFailDecode(P, pc.NoFailDecode)...)
	}
	groups := groupObligations(frs)
	var ledger map[string][]string
	loadJSON(filepath.Join(verifDir, "baseline_ledger.json"), &ledger)
	inLedger := map[string]bool{}
	for _, id := range ledger[prop] {
		inLedger[id] = true
	}
	var known []KnownFinding
	loadJSON(filepath.Join(verifDir, "known_findings.json"), &known)

	seen := map[string]bool{}
	for _, g := range groups {
		seen[g.ID] = true
	}
	var missing []string
	for _, id := range ledger[prop] {
		if !seen[id] {
			missing = append(missing, id)
		}
	}
	violations := 0
	var undecided []string
	var lines []string
	// functions whose proof failed or whose contract no longer attaches: look for a concrete failing
	// input by evaluating the contract at run time against the real code (bounded, see rt.go)
	fnOf := func(id string) string {
		if i := strings.Index(id, "/"); i >= 0 {
			return id[:i]
		}
		return id
	}
	isRepoFn := func(k string) bool { _, ok := P.Funcs[k]; return ok && L.Funcs[k] != nil }
	needRT := map[string]bool{}
	for _, g := range groups {
		if len(g.Failed) > 0 && (inLedger[g.ID] || len(ledger[prop]) == 0) && isRepoFn(fnOf(g.ID)) {
			needRT[fnOf(g.ID)] = true
		}
	}
	detached := map[string]string{}
	for _, fr := range frs {
		if fr.Err != "" && isRepoFn(fr.Key) {
			needRT[fr.Key] = true
			detached[fr.Key] = fr.Err
		}
	}
	rtRes := map[string]*rtResult{}
	if len(needRT) > 0 {
		n := 4000
		if tier == "thorough" {
			n = 40000
		}
		for _, r := range runRT(P, L, sortedKeys(needRT), n, seed+1, -1) {
			rtRes[r.Key] = r
		}
	}
	var bounded []string
	if tier == "thorough" {
		// cross-check of the SMT model of Go: every function of the property, many inputs
		var rest []string
		for _, k := range fnBases(pc.Functions) {
			if !needRT[k] && isRepoFn(k) {
				rest = append(rest, k)
			}
		}
		for _, r := range runRT(P, L, rest, 20000, seed+1, -1) {
			rtRes[r.Key] = r
			if r.Failed {
				violations++
				rp := writeRTReplay(prop, r.Key+"/"+r.FailClause, r, "run-time evaluation of the contract on the real code found a failing input although the proof obligations are discharged: either the code violates the contract on an input outside the verifier's model, or the model is unsound here")
				lines = append(lines, fmt.Sprintf("VIOLATION property=%s replay=%s", prop, rp))
			} else if r.Error == "" {
				bounded = append(bounded, fmt.Sprintf("%s: contract evaluated at run time on %d generated inputs (%d skipped by requires), clauses %v, seed %d: no failure [bounded cross-check, not proof]", r.Key, r.Checked, r.Skipped, r.Clauses, seed+1))
			}
		}
	}
	if tier == "thorough" && scenarioProps[prop] {
		if sum, n := runScenarioSummary(); sum != "" {
			if n == 0 {
				bounded = append(bounded, "scenario search (replay/fs_scenarios_test.go.txt): the real handler agrees with the reference model of the spec functions on every enumerated request: "+sum+" [bounded cross-check of the contracts' spec functions against the code, not proof]")
			} else {
				bounded = append(bounded, "scenario search: "+sum+" -- the real handler disagrees with the reference model on some enumerated requests; reported only through a failed obligation")
			}
		}
	}
	reported := map[string]bool{}
	// recorded, unrepaired defects: the obligations named in an open known-findings entry are expected to fail
	openIDs := map[string]*KnownFinding{}
	for i := range known {
		kf := &known[i]
		if kf.Property == prop && kf.Status == "open" {
			for _, id := range strings.Split(kf.Obligation, ",") {
				openIDs[strings.TrimSpace(id)] = kf
			}
		}
	}
	stillFails := map[*KnownFinding]bool{}
	for _, g := range groups {
		if len(g.Failed) == 0 {
			continue
		}
		if kf := openIDs[g.ID]; kf != nil {
			stillFails[kf] = true
			continue
		}
		if isClauseCover(g.ID) {
			// the antecedent of this clause is unreachable: the clause holds vacuously on this tree. Not a
			// violation of the property; reported so that a contradiction among assumed contracts is noticed
			// (the reference ledger is only written when no clause is vacuous).
			undecided = append(undecided, "vacuous:"+g.ID)
			fmt.Printf("WARNING property=%s clause holds vacuously (antecedent unreachable): %s\n", prop, g.ID)
			continue
		}
		if !inLedger[g.ID] && len(ledger[prop]) > 0 {
			undecided = append(undecided, g.ID)
			continue
		}
		violations++
		r := rtRes[fnOf(g.ID)]
		if r != nil && r.Failed {
			rp := writeReplayRT(prop, g, r)
			lines = append(lines, fmt.Sprintf("VIOLATION property=%s replay=%s", prop, rp))
			reported[fnOf(g.ID)] = true
			continue
		}
		rp := writeReplay(prop, g, frs)
		lines = append(lines, fmt.Sprintf("VIOLATION property=%s replay=%s no-failing-input-found", prop, rp))
	}
	// contracts that no longer attach (renamed local in an invariant, changed signature ...): the bounded
	// stand-in decides. A failing input is a violation; otherwise the function is reported as not proved.
	var stillDetached []string
	for _, k := range sortedKeys(map[string]bool(func() map[string]bool {
		m := map[string]bool{}
		for k := range detached {
			m[k] = true
		}
		return m
	}())) {
		r := rtRes[k]
		switch {
		case r != nil && r.Failed:
			violations++
			rp := writeRTReplay(prop, k+"/"+r.FailClause, r, "the contract no longer attaches to this function ("+detached[k]+"); its requires/ensures clauses were evaluated at run time against the real code instead")
			lines = append(lines, fmt.Sprintf("VIOLATION property=%s replay=%s", prop, rp))
		case r != nil && r.Error == "" && r.Checked > 0:
			bounded = append(bounded, fmt.Sprintf("%s: PROOF NOT ATTACHED (%s); bounded stand-in: contract evaluated at run time on %d generated inputs, clauses %v, not evaluable %v: no failure", k, detached[k], r.Checked, r.Clauses, r.Unsupported))
		default:
			stillDetached = append(stillDetached, k)
		}
	}
	// file-server properties: the verifier gives no model for a failed tree obligation; look for a concrete failing
	// request by a bounded scenario search against the real handler (replay/fs_scenarios_test.go.txt)
	if scenarioProps[prop] {
		lines = attachScenario(prop, lines)
	}
	for i := range known {
		kf := &known[i]
		if kf.Property == prop && kf.Status == "open" {
			if stillFails[kf] {
				fmt.Printf("KNOWN-FINDING: property=%s %s\n", prop, kf.What)
			} else {
				fmt.Printf("NOTE property=%s the recorded finding no longer reproduces (obligation %s is discharged): %s\n", prop, kf.Obligation, kf.What)
			}
		}
	}
	for _, l := range lines {
		fmt.Println(l)
	}
	for _, b := range bounded {
		fmt.Println("BOUNDED " + b)
	}
	wall := time.Since(t0).Seconds()
	// engine errors that the stand-in resolved are no longer fatal
	var fatal []string
	for _, fr := range frs {
		if fr.Err == "" {
			continue
		}
		resolved := false
		if _, ok := detached[fr.Key]; ok {
			resolved = true
			for _, k := range stillDetached {
				if k == fr.Key {
					resolved = false
				}
			}
		}
		if !resolved {
			fatal = append(fatal, fr.Err)
		}
	}
	if len(groups) == 0 {
		fatal = append(fatal, "no obligations generated")
	}
	if pc.Bounded == nil {
		pc.Bounded = []string{}
	}
	pc.Bounded = append(pc.Bounded, bounded...)
	writeEvidence(prop, tier, seed, pc, frs, groups, wall, violations, fatal, undecided)
	if violations > 0 {
		return 1
	}
	if len(fatal) > 0 {
		for _, e := range fatal {
			fmt.Printf("ENGINE-FAIL property=%s %s\n", prop, e)
		}
		return 3
	}
	var reallyMissing []string
	for _, id := range missing {
		if _, ok := detached[fnOf(id)]; ok {
			continue // covered by the bounded stand-in above
		}
		if strings.Contains(id, "/safety:") || strings.Contains(id, "/call:") {
			continue // a potentially panicking instruction or a call that no longer exists needs no proof
		}
		reallyMissing = append(reallyMissing, id)
	}
	if len(reallyMissing) > 0 {
		// an obligation of the reference tree can no longer be generated: the contract no longer attaches
		for _, id := range reallyMissing {
			fmt.Printf("ENGINE-FAIL property=%s obligation %s of the reference ledger was not generated\n", prop, id)
		}
		return 3
	}
	d, n := 0, 0
	for _, g := range groups {
		if g.Cover || (openIDs[g.ID] != nil && len(g.Failed) > 0) {
			continue
		}
		n++
		if len(g.Failed) == 0 {
			d++
		}
	}
	fmt.Printf("OK property=%s tier=%s obligations=%d discharged=%d undecided=%d wall=%.1fs\n", prop, tier, n, d, len(undecided), wall)
	return 0
}

// runScenarioSummary runs the bounded scenario search and returns its summary line and the number of mismatches.
func runScenarioSummary() (string, int) {
	src := filepath.Join(verifDir, "replay", "fs_scenarios_test.go.txt")
	if _, err := os.Stat(src); err != nil {
		return "", 0
	}
	ov, err := os.CreateTemp("", "govc-sc-*.json")
	if err != nil {
		return "", 0
	}
	defer os.Remove(ov.Name())
	fmt.Fprintf(ov, `{"Replace":{%q:%q}}`, filepath.Join(repoDir, "zz_govc_scenarios_test.go"), src)
	ov.Close()
	cmd := exec.Command("go", "test", "-overlay", ov.Name(), "-vet=off", "-count=1", "-timeout", "300s", "-run", "TestGovcScenarios", ".")
	cmd.Dir = repoDir
	cmd.Env = append(os.Environ(), "GOFLAGS=-mod=mod", "GOPROXY=off", "GOSUMDB=off", "GOVC_SCENARIO_LIMIT=0")
	out, _ := cmd.CombinedOutput()
	for _, l := range strings.Split(string(out), "\n") {
		if strings.HasPrefix(l, "GOVC-SCENARIO-SUMMARY") {
			n := 0
			if i := strings.Index(l, "mismatches="); i >= 0 {
				fmt.Sscanf(l[i:], "mismatches=%d", &n)
			}
			return strings.TrimPrefix(l, "GOVC-SCENARIO-SUMMARY "), n
		}
	}
	return "", 0
}

var scenarioProps = map[string]bool{"C01": true, "C02": true, "C03": true, "C04": true, "C17": true}

// attachScenario runs the bounded scenario search once and, if it finds requests on which the real handler
// disagrees with the reference model, records them in the replay file of the first violation that has no
// replayed input and drops that line's no-failing-input-found suffix. The search decides nothing.
func attachScenario(prop string, lines []string) []string {
	idx := -1
	for i, l := range lines {
		if strings.HasSuffix(l, " no-failing-input-found") {
			idx = i
			break
		}
	}
	if idx < 0 {
		return lines
	}
	src := filepath.Join(verifDir, "replay", "fs_scenarios_test.go.txt")
	if _, err := os.Stat(src); err != nil {
		return lines
	}
	ov, err := os.CreateTemp("", "govc-sc-*.json")
	if err != nil {
		return lines
	}
	defer os.Remove(ov.Name())
	fmt.Fprintf(ov, `{"Replace":{%q:%q}}`, filepath.Join(repoDir, "zz_govc_scenarios_test.go"), src)
	ov.Close()
	cmd := exec.Command("go", "test", "-overlay", ov.Name(), "-vet=off", "-count=1", "-timeout", "300s", "-run", "TestGovcScenarios", ".")
	cmd.Dir = repoDir
	cmd.Env = append(os.Environ(), "GOFLAGS=-mod=mod", "GOPROXY=off", "GOSUMDB=off", "GOVC_SCENARIO_LIMIT=200")
	out, _ := cmd.CombinedOutput()
	var all, mine []string
	summary := ""
	for _, l := range strings.Split(string(out), "\n") {
		if strings.HasPrefix(l, "GOVC-SCENARIO-FAIL ") {
			all = append(all, l)
			if strings.Contains(l, "category="+prop+"-") {
				mine = append(mine, l)
			}
		} else if strings.HasPrefix(l, "GOVC-SCENARIO-SUMMARY") {
			summary = l
		}
	}
	pick := mine
	if len(pick) == 0 {
		pick = all
	}
	if len(pick) == 0 {
		return lines
	}
	if len(pick) > 5 {
		pick = pick[:5]
	}
	// the replay file of that violation
	f := strings.TrimSuffix(lines[idx], " no-failing-input-found")
	rp := f[strings.Index(f, "replay=")+7:]
	var rep map[string]interface{}
	if err := loadJSON(rp, &rep); err == nil {
		rep["replayed_input"] = map[string]interface{}{
			"kind":      "bounded scenario search against the real handler (webdav.Handler over LocalFileSystem in a temporary directory), compared with the reference model of the contracts' spec functions",
			"scenarios": pick,
			"summary":   summary,
			"command":   "cd /repo && go test -overlay <{\"Replace\":{\"/repo/zz_govc_scenarios_test.go\":\"/verif/replay/fs_scenarios_test.go.txt\"}}> -vet=off -count=1 -run TestGovcScenarios .",
		}
		rep["note"] = "obligation discharged on the reference tree and not discharged on this tree; the solver gave no model; a concrete failing request was found by the bounded scenario search and is listed under replayed_input"
		data, _ := json.MarshalIndent(rep, "", " ")
		os.WriteFile(rp, data, 0o644)
		lines[idx] = f
	}
	return lines
}

func writeReplay(prop string, g *Group, frs []*FuncResult) string {
	dir := filepath.Join(verifDir, "replays")
	os.MkdirAll(dir, 0o755)
	name := strings.NewReplacer("/", "_", ":", "_", "*", "P", "(", "", ")", "", " ", "_", "$", "_").Replace(g.ID)
	path := filepath.Join(dir, fmt.Sprintf("%s-%s.json", prop, name))
	type inst struct {
		Pos    string `json:"pos"`
		Path   string `json:"path"`
		Goal   string `json:"goal"`
		Result string `json:"solver_result"`
		Solver string `json:"solver"`
		Output string `json:"solver_output"`
	}
	var insts []inst
	for i, o := range g.Failed {
		if i >= 5 {
			break
		}
		out := o.Output
		if len(out) > 4000 {
			out = out[:4000]
		}
		insts = append(insts, inst{o.Pos, o.Path, o.Goal, o.Result, o.Backend, out})
	}
	rep := map[string]interface{}{
		"property":          prop,
		"failed_obligation": g.ID,
		"kind":              g.Kind,
		"instances_failed":  len(g.Failed),
		"instances_total":   g.Instances,
		"failing_instances": insts,
		"replayed_input":    nil,
		"note":              "obligation discharged on the reference tree (baseline_ledger.json) and not discharged on this tree; no concrete failing input was replayed",
	}
	data, _ := json.MarshalIndent(rep, "", " ")
	os.WriteFile(path, data, 0o644)
	return path
}

func writeEvidence(prop, tier string, seed int, pc *PropConfig, frs []*FuncResult, groups []*Group, wall float64, violations int, engineErrs []string, undecided []string) {
	type oblJSON struct {
		ID        string         `json:"id"`
		Kind      string         `json:"kind"`
		Instances int            `json:"path_instances"`
		Backends  map[string]int `json:"backends"`
		Seconds   float64        `json:"solver_seconds"`
		Status    string         `json:"status"`
	}
	var obls []oblJSON
	discharged := 0
	solverSecs := 0.0
	instances := 0
	undec := map[string]bool{}
	for _, u := range undecided {
		undec[u] = true
	}
	guards, guardsReach := 0, 0
	// obligations named by an open known-findings entry are recorded defects: they are listed, not claimed
	knownObl := map[string]string{}
	{
		var known []KnownFinding
		loadJSON(filepath.Join(verifDir, "known_findings.json"), &known)
		for _, kf := range known {
			if kf.Property == prop && kf.Status == "open" {
				for _, id := range strings.Split(kf.Obligation, ",") {
					knownObl[strings.TrimSpace(id)] = kf.What
				}
			}
		}
	}
	var knownList []map[string]string
	for _, g := range groups {
		if what, ok := knownObl[g.ID]; ok && len(g.Failed) > 0 {
			knownList = append(knownList, map[string]string{"obligation": g.ID, "status": "fails as recorded (known finding, not claimed)", "what": what})
			continue
		}
		if g.Cover {
			// vacuity guard (reachability of a return / of a clause's antecedent): not a proof obligation
			guards++
			if len(g.Failed) == 0 {
				guardsReach++
			}
			continue
		}
		st := "discharged"
		if len(g.Failed) > 0 {
			st = "failed"
			if undec[g.ID] {
				st = "undecided"
			}
		} else {
			discharged++
		}
		instances += g.Instances
		solverSecs += g.Seconds
		obls = append(obls, oblJSON{g.ID, g.Kind, g.Instances, g.Backends, round3(g.Seconds), st})
	}
	claimed := len(obls)
	for _, u := range undecided {
		if !strings.HasPrefix(u, "vacuous:") {
			claimed--
		}
	}
	used := map[string]bool{}
	abstr := map[string]bool{}
	var funcs []string
	for _, fr := range frs {
		funcs = append(funcs, fr.Key)
		for _, u := range fr.Used {
			used[u] = true
		}
		for _, a := range fr.Abstr {
			abstr[fr.Key+": "+a] = true
		}
	}
	trusted := []string{"T-engine (govc VC generator, go/ssa, SMT solvers)", "T-go (mathematical integers, strings as code-point sequences, []byte as immutable string values, no data races)"}
	trusted = append(trusted, sortedKeys(used)...)
	var samples []interface{}
	for _, fr := range frs {
		for _, o := range fr.Obls {
			if len(samples) >= 3 {
				break
			}
			if o.Kind == "ensures" || o.Kind == "lemma" || o.Kind == "schema" {
				pcs := o.PC
				if len(pcs) > 6 {
					pcs = pcs[len(pcs)-6:]
				}
				samples = append(samples, map[string]interface{}{"obligation": o.ID(), "path": o.Path, "goal": trunc(o.Goal, 600), "last_path_conditions": truncAll(pcs, 300), "result": o.Result, "backend": o.Backend})
				break
			}
		}
	}
	if len(samples) == 0 {
		samples = append(samples, "none")
	}
	cov := map[string]interface{}{
		"obligations":              claimed,
		"discharged":               discharged,
		"checker_cmd":              fmt.Sprintf("/verif/bin/govc check --property %s --tier %s", prop, tier),
		"trusted_base":             trusted,
		"samples":                  samples,
		"path_level_instances":     instances,
		"functions_under_contract": funcs,
		"obligation_list":          obls,
		"undecided":                undecided,
		"known_findings":           knownList,
		"vacuity_guards":           map[string]int{"posed": guards, "not_refuted": guardsReach},
		"abstracted_constructs":    sortedKeys(abstr),
		"solver_seconds_total":     round3(solverSecs),
		"engine_errors":            engineErrs,
	}
	if pc != nil {
		cov["not_decided_clauses"] = pc.NotDecided
		cov["bounded"] = pc.Bounded
		cov["note"] = pc.Note
	}
	assumptions := append([]string(nil), trusted...)
	if pc != nil {
		assumptions = append(assumptions, pc.Assumes...)
	}
	ev := map[string]interface{}{
		"property_id": prop,
		"tier":        tier,
		"seed":        seed,
		"level":       "proof",
		"coverage":    cov,
		"assumptions": assumptions,
		"wall_s":      round3(wall),
		"violations":  violations,
	}
	evDir := filepath.Join(verifDir, "evidence")
	if d := os.Getenv("GOVC_EVIDENCE_DIR"); d != "" {
		// runs against deliberately broken trees (seeded changes, canaries) must not overwrite the evidence of the real tree
		evDir = d
	}
	os.MkdirAll(evDir, 0o755)
	data, _ := json.MarshalIndent(ev, "", " ")
	os.WriteFile(filepath.Join(evDir, prop+".json"), data, 0o644)
}

func round3(f float64) float64 { return float64(int(f*1000+0.5)) / 1000 }

func trunc(s string, n int) string {
	if len(s) > n {
		return s[:n] + "..."
	}
	return s
}

func truncAll(ss []string, n int) []string {
	var out []string
	for _, s := range ss {
		out = append(out, trunc(s, n))
	}
	return out
}

// cmdLedger regenerates baseline_ledger.json from a run in which every obligation is discharged.
// isClauseCover: the reachability guard of one ensures clause (cover:<label>), as opposed to cover:return
func isClauseCover(id string) bool {
	i := strings.LastIndex(id, "/cover:")
	return i >= 0 && id[i+7:] != "return"
}

func cmdLedger(args []string) {
	var props map[string]*PropConfig
	if err := loadJSON(filepath.Join(verifDir, "props.json"), &props); err != nil {
		fmt.Fprintln(os.Stderr, err)
		os.Exit(3)
	}
	P, err := loadProgram()
	if err != nil {
		fmt.Fprintln(os.Stderr, err)
		os.Exit(3)
	}
	L, err := loadLibrary()
	if err != nil {
		fmt.Fprintln(os.Stderr, err)
		os.Exit(3)
	}
	ledger := map[string][]string{}
	loadJSON(filepath.Join(verifDir, "baseline_ledger.json"), &ledger)
	var ids []string
	for id := range props {
		ids = append(ids, id)
	}
	sort.Strings(ids)
	want := map[string]bool{}
	for _, a := range args {
		want[a] = true
	}
	for _, id := range ids {
		if len(want) > 0 && !want[id] {
			continue
		}
		pc := props[id]
		frs := verifyFunctions(P, L, pc.Functions, solveOpts{timeoutS: 10})
		frs = append(frs, verifyLemmas(P, L, pc.Lemmas, solveOpts{timeoutS: 10})...)
		if len(pc.Schema) > 0 {
			frs = append(frs, checkSchema(P, pc.Schema)...)
		}
		if len(pc.NoFailDecode) > 0 {
			frs = append(frs, checkNoFailDecode(P, pc.NoFailDecode)...)
		}
		var okIDs []string
		bad := 0
		for _, fr := range frs {
			if fr.Err != "" {
				fmt.Printf("%s: ERROR %s\n", id, fr.Err)
				bad++
			}
		}
		for _, g := range groupObligations(frs) {
			if isClauseCover(g.ID) {
				if len(g.Failed) > 0 {
					fmt.Printf("%s: VACUOUS clause on the reference tree: %s\n", id, g.ID)
					bad++
				}
				continue
			}
			if len(g.Failed) == 0 {
				okIDs = append(okIDs, g.ID)
			} else {
				fmt.Printf("%s: not discharged: %s\n", id, g.ID)
				bad++
			}
		}
		sort.Strings(okIDs)
		ledger[id] = okIDs
		fmt.Printf("%s: %d obligations in ledger, %d not discharged\n", id, len(okIDs), bad)
	}
	data, _ := json.MarshalIndent(ledger, "", " ")
	os.WriteFile(filepath.Join(verifDir, "baseline_ledger.json"), data, 0o644)
}

// cmdSweep: run the VC generator over every /repo function (no solving) and report engine errors.
func cmdSweep(args []string) {
	P, err := loadProgram()
	if err != nil {
		fmt.Fprintln(os.Stderr, err)
		os.Exit(3)
	}
	L, err := loadLibrary()
	if err != nil {
		fmt.Fprintln(os.Stderr, err)
		os.Exit(3)
	}
	errs := map[string][]string{}
	abstr := map[string]int{}
	total := 0
	for _, k := range P.funcNames() {
		if len(args) > 0 && !strings.Contains(k, args[0]) {
			continue
		}
		x := newExec(P, L)
		x.closures = map[string]*closureInfo{}
		x.known = map[string]string{}
		e := x.verifyFunc(k)
		total += len(x.obls)
		if e != nil {
			msg := e.Error()
			msg = strings.TrimPrefix(msg, k+": ")
			errs[msg] = append(errs[msg], k)
		}
		for a := range x.abstr {
			abstr[a]++
		}
	}
	var msgs []string
	for m := range errs {
		msgs = append(msgs, m)
	}
	sort.Strings(msgs)
	for _, m := range msgs {
		fmt.Printf("ERROR %s\n    %s\n", m, strings.Join(errs[m], "\n    "))
	}
	var as []string
	for a := range abstr {
		as = append(as, a)
	}
	sort.Strings(as)
	for _, a := range as {
		fmt.Printf("ABSTR %4d %s\n", abstr[a], a)
	}
	fmt.Printf("%d functions, %d obligation instances, %d distinct errors\n", len(P.Funcs), total, len(errs))
}

// writeReplayRT: a failed obligation for which run-time evaluation found a concrete failing input
func writeReplayRT(prop string, g *Group, r *rtResult) string {
	path := writeReplay(prop, g, nil)
	var rep map[string]interface{}
	loadJSON(path, &rep)
	rep["replayed_input"] = r
	rep["note"] = "obligation discharged on the reference tree and not discharged on this tree; evaluating the function's contract at run time against the real code found the failing input below"
	rep["replay_cmd"] = fmt.Sprintf("/verif/bin/govc replay %s", path)
	data, _ := json.MarshalIndent(rep, "", " ")
	os.WriteFile(path, data, 0o644)
	return path
}

func writeRTReplay(prop, id string, r *rtResult, note string) string {
	dir := filepath.Join(verifDir, "replays")
	os.MkdirAll(dir, 0o755)
	name := strings.NewReplacer("/", "_", ":", "_", "*", "P", "(", "", ")", "", " ", "_", "$", "_").Replace(id)
	path := filepath.Join(dir, fmt.Sprintf("%s-%s.json", prop, name))
	rep := map[string]interface{}{
		"property":          prop,
		"failed_obligation": id,
		"kind":              "runtime-contract-evaluation",
		"replayed_input":    r,
		"note":              note,
		"replay_cmd":        fmt.Sprintf("/verif/bin/govc replay %s", path),
	}
	data, _ := json.MarshalIndent(rep, "", " ")
	os.WriteFile(path, data, 0o644)
	return path
}

// cmdReplay re-runs the failing input recorded in a replay file against /repo's current tree.
func cmdReplay(args []string) {
	if len(args) != 1 {
		fmt.Fprintln(os.Stderr, "usage: govc replay <file>")
		os.Exit(2)
	}
	var rep struct {
		Property string    `json:"property"`
		Obl      string    `json:"failed_obligation"`
		Input    *rtResult `json:"replayed_input"`
		Note     string    `json:"note"`
	}
	if err := loadJSON(args[0], &rep); err != nil {
		fmt.Fprintln(os.Stderr, err)
		os.Exit(2)
	}
	fmt.Printf("property %s, obligation %s\n%s\n", rep.Property, rep.Obl, rep.Note)
	// a file-server violation with scenarios from the bounded scenario search: run the search again on the current tree
	var raw map[string]interface{}
	loadJSON(args[0], &raw)
	if ri, ok := raw["replayed_input"].(map[string]interface{}); ok {
		if sc, ok := ri["scenarios"].([]interface{}); ok && len(sc) > 0 {
			fmt.Println("recorded failing requests:")
			for _, l := range sc {
				fmt.Println("  ", l)
			}
			src := filepath.Join(verifDir, "replay", "fs_scenarios_test.go.txt")
			ov, _ := os.CreateTemp("", "govc-sc-*.json")
			fmt.Fprintf(ov, `{"Replace":{%q:%q}}`, filepath.Join(repoDir, "zz_govc_scenarios_test.go"), src)
			ov.Close()
			defer os.Remove(ov.Name())
			cmd := exec.Command("go", "test", "-overlay", ov.Name(), "-vet=off", "-count=1", "-timeout", "300s", "-run", "TestGovcScenarios", ".")
			cmd.Dir = repoDir
			cmd.Env = append(os.Environ(), "GOFLAGS=-mod=mod", "GOPROXY=off", "GOSUMDB=off", "GOVC_SCENARIO_LIMIT=10")
			out, _ := cmd.CombinedOutput()
			n := 0
			for _, l := range strings.Split(string(out), "\n") {
				if strings.HasPrefix(l, "GOVC-SCENARIO-") {
					fmt.Println(l)
					if strings.HasPrefix(l, "GOVC-SCENARIO-FAIL") {
						n++
					}
				}
			}
			if n > 0 {
				fmt.Println("REPRODUCED on the current tree: the scenario search finds failing requests")
				os.Exit(1)
			}
			fmt.Println("not reproduced on the current tree (the scenario search finds no failing request)")
			os.Exit(0)
		}
	}
	if rep.Input == nil || !rep.Input.Failed {
		fmt.Println("no concrete failing input was recorded for this obligation (no-failing-input-found); the file carries the solver output")
		os.Exit(0)
	}
	P, err := loadProgram()
	if err != nil {
		fmt.Fprintln(os.Stderr, err)
		os.Exit(3)
	}
	L, err := loadLibrary()
	if err != nil {
		fmt.Fprintln(os.Stderr, err)
		os.Exit(3)
	}
	res := runRT(P, L, []string{rep.Input.Key}, rep.Input.Iter+1, rep.Input.Seed, rep.Input.Iter)
	for _, r := range res {
		if r.Failed {
			fmt.Printf("REPRODUCED on the current tree: %s\n", r.FailLine)
			os.Exit(1)
		}
		if r.Error != "" {
			fmt.Println("replay error:", r.Error)
			os.Exit(3)
		}
	}
	fmt.Println("not reproduced on the current tree (the recorded input passes)")
}
