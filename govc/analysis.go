package main

// Static helpers over SSA: escape analysis of Allocs, natural loops, loop-modified
// cells, and the transitive "may write" heap sets of /repo functions.

import (
	"go/ast"
	"go/token"
	"go/types"
	"sort"

	"golang.org/x/tools/go/ssa"
)

// escapes reports whether the address of a local Alloc is used other than through
// direct loads, stores and field projections.
func escapes(a *ssa.Alloc) bool {
	if _, ok := a.Type().(*types.Pointer).Elem().Underlying().(*types.Array); ok {
		return true
	}
	var walk func(v ssa.Value) bool
	seen := map[ssa.Value]bool{}
	walk = func(v ssa.Value) bool {
		if seen[v] {
			return false
		}
		seen[v] = true
		refs := v.Referrers()
		if refs == nil {
			return true
		}
		for _, r := range *refs {
			switch x := r.(type) {
			case *ssa.DebugRef:
			case *ssa.Store:
				if x.Val == v {
					return true
				}
			case *ssa.UnOp:
				if x.Op != token.MUL {
					return true
				}
			case *ssa.FieldAddr:
				if walk(x) {
					return true
				}
			default:
				return true
			}
		}
		return false
	}
	return walk(a)
}

type loopInfo struct {
	ord    int
	head   *ssa.BasicBlock
	body   map[*ssa.BasicBlock]bool
	cells  []*ssa.Alloc // allocs (declared outside the loop) stored to inside the loop
	heaps  map[string]bool
	allocs bool // loop body allocates
	calls  []*ssa.CallCommon
	riCell *ssa.Alloc // rangeindex cell of a range-over-slice loop
	riLen  ssa.Value  // its bound
	kind   string
}

// findLoops computes natural loops of fn, numbered in source order of their header.
func findLoops(fn *ssa.Function) map[*ssa.BasicBlock]*loopInfo {
	loops := map[*ssa.BasicBlock]*loopInfo{}
	for _, b := range fn.Blocks {
		for _, s := range b.Succs {
			if s.Dominates(b) { // back edge b -> s
				li := loops[s]
				if li == nil {
					li = &loopInfo{head: s, body: map[*ssa.BasicBlock]bool{s: true}, heaps: map[string]bool{}}
					loops[s] = li
				}
				// nodes that reach b without passing through s
				var stack []*ssa.BasicBlock
				if !li.body[b] {
					li.body[b] = true
					stack = append(stack, b)
				}
				for len(stack) > 0 {
					n := stack[len(stack)-1]
					stack = stack[:len(stack)-1]
					for _, p := range n.Preds {
						if !li.body[p] {
							li.body[p] = true
							stack = append(stack, p)
						}
					}
				}
			}
		}
	}
	var heads []*ssa.BasicBlock
	for h := range loops {
		heads = append(heads, h)
	}
	// source order: position of the first instruction with a position in the header, fall back to block index
	pos := func(b *ssa.BasicBlock) token.Pos {
		for bb := range loops[b].body {
			_ = bb
		}
		best := token.NoPos
		for blk := range loops[b].body {
			for _, in := range blk.Instrs {
				if p := in.Pos(); p != token.NoPos && (best == token.NoPos || p < best) {
					best = p
				}
			}
		}
		return best
	}
	sort.Slice(heads, func(i, j int) bool {
		pi, pj := pos(heads[i]), pos(heads[j])
		if pi != pj {
			return pi < pj
		}
		return heads[i].Index < heads[j].Index
	})
	for i, h := range heads {
		li := loops[h]
		li.ord = i + 1
		li.kind = h.Comment
		seen := map[*ssa.Alloc]bool{}
		for b := range li.body {
			for _, in := range b.Instrs {
				switch x := in.(type) {
				case *ssa.Store:
					if a := rootAlloc(x.Addr); a != nil {
						if !li.body[a.Block()] && !seen[a] {
							seen[a] = true
							li.cells = append(li.cells, a)
						}
					}
				case *ssa.Alloc, *ssa.MakeSlice, *ssa.MakeMap, *ssa.MakeClosure, *ssa.MakeChan:
					li.allocs = true
				case ssa.CallInstruction:
					li.calls = append(li.calls, x.Common())
				}
			}
		}
		sort.Slice(li.cells, func(i, j int) bool { return li.cells[i].Pos() < li.cells[j].Pos() || (li.cells[i].Pos() == li.cells[j].Pos() && li.cells[i].Name() < li.cells[j].Name()) })
		// range-over-slice pattern: header loads rangeindex cell, adds 1, compares with a length
		if h.Comment == "rangeindex.loop" {
			for _, in := range h.Instrs {
				if u, ok := in.(*ssa.UnOp); ok && u.Op == token.MUL {
					if a, ok := u.X.(*ssa.Alloc); ok && a.Comment == "rangeindex" {
						li.riCell = a
					}
				}
				if bo, ok := in.(*ssa.BinOp); ok && bo.Op == token.LSS {
					li.riLen = bo.Y
				}
			}
		}
	}
	return loops
}

func rootAlloc(v ssa.Value) *ssa.Alloc {
	for {
		switch x := v.(type) {
		case *ssa.Alloc:
			return x
		case *ssa.FieldAddr:
			v = x.X
		case *ssa.IndexAddr:
			// element of a local array
			if _, ok := x.X.Type().Underlying().(*types.Pointer); ok {
				v = x.X
			} else {
				return nil
			}
		default:
			return nil
		}
	}
}

// ---------------------------------------------------------------------------
// may-write sets

type modSet struct {
	heaps  map[string]bool
	full   map[string]bool // may be written at references that existed before (explicit assigns)
	direct map[string]bool // written by the code under execution itself (stores, appends, inlined helpers)
	all    bool            // unknown effects
	why    string
	allocs bool
	ghosts map[string]bool
}

func newModSet() *modSet {
	return &modSet{heaps: map[string]bool{}, ghosts: map[string]bool{}, full: map[string]bool{}, direct: map[string]bool{}}
}

func (m *modSet) union(o *modSet) bool {
	ch := false
	if o.all && !m.all {
		m.all = true
		ch = true
	}
	if o.allocs && !m.allocs {
		m.allocs = true
		ch = true
	}
	for h := range o.heaps {
		if !m.heaps[h] {
			m.heaps[h] = true
			ch = true
		}
	}
	for h := range o.ghosts {
		if !m.ghosts[h] {
			m.ghosts[h] = true
			ch = true
		}
	}
	for h := range o.full {
		if !m.full[h] {
			m.full[h] = true
			ch = true
		}
	}
	for h := range o.direct {
		if !m.direct[h] {
			m.direct[h] = true
			ch = true
		}
	}
	return ch
}

// storeHeaps returns the heap names a store through addr may write (nil, true) when the
// target is a local cell.
func (x *Exec) storeHeaps(addr ssa.Value, esc func(*ssa.Alloc) bool) (names []string, local bool) {
	var path []int
	v := addr
	for {
		switch a := v.(type) {
		case *ssa.FieldAddr:
			path = append([]int{a.Field}, path...)
			pt := a.X.Type().Underlying().(*types.Pointer).Elem()
			// does the chain continue below (pointer produced by another FieldAddr / IndexAddr / Alloc)?
			switch a.X.(type) {
			case *ssa.FieldAddr, *ssa.IndexAddr:
				v = a.X
				continue
			case *ssa.Alloc:
				if !esc(a.X.(*ssa.Alloc)) {
					return nil, true
				}
			}
			if isStructT(pt) {
				return []string{x.C.heapFieldName(pt, path[0])}, false
			}
			return []string{x.C.heapCellName(pt)}, false
		case *ssa.IndexAddr:
			var et types.Type
			switch t := a.X.Type().Underlying().(type) {
			case *types.Slice:
				et = t.Elem()
			case *types.Pointer:
				et = t.Elem().Underlying().(*types.Array).Elem()
			}
			return []string{x.C.elemHeapName(et)}, false
		case *ssa.Alloc:
			if !esc(a) {
				return nil, true
			}
			pt := a.Type().(*types.Pointer).Elem()
			return x.heapsOfType(pt, path), false
		default:
			pt, ok := v.Type().Underlying().(*types.Pointer)
			if !ok {
				return nil, false
			}
			return x.heapsOfType(pt.Elem(), path), false
		}
	}
}

func (x *Exec) heapsOfType(pt types.Type, path []int) []string {
	if isStructT(pt) {
		if len(path) > 0 {
			return []string{x.C.heapFieldName(pt, path[0])}
		}
		u := pt.Underlying().(*types.Struct)
		var out []string
		for i := 0; i < u.NumFields(); i++ {
			out = append(out, x.C.heapFieldName(pt, i))
		}
		return out
	}
	return []string{x.C.heapCellName(pt)}
}

// computeModSets computes the transitive may-write sets of all /repo functions.
func (x *Exec) computeModSets() map[*ssa.Function]*modSet {
	sets := map[*ssa.Function]*modSet{}
	escCache := map[*ssa.Alloc]bool{}
	esc := func(a *ssa.Alloc) bool {
		if v, ok := escCache[a]; ok {
			return v
		}
		v := escapes(a)
		escCache[a] = v
		return v
	}
	var fns []*ssa.Function
	for _, f := range x.P.Funcs {
		fns = append(fns, f)
		sets[f] = newModSet()
	}
	sort.Slice(fns, func(i, j int) bool { return funcKey(fns[i]) < funcKey(fns[j]) })
	direct := func(f *ssa.Function) {
		m := sets[f]
		for _, b := range f.Blocks {
			for _, in := range b.Instrs {
				switch i := in.(type) {
				case *ssa.Store:
					names, local := x.storeHeaps(i.Addr, esc)
					if !local {
						for _, n := range names {
							m.heaps[n] = true
						}
						if g, ok := i.Addr.(*ssa.Global); ok {
							m.heaps["G_"+mangle(g.Pkg.Pkg.Path()+"."+g.Name())] = true
						}
					}
				case *ssa.MapUpdate:
					if mt, ok := i.Map.Type().Underlying().(*types.Map); ok {
						v, d := x.C.mapHeapNames(mt)
						m.heaps[v] = true
						m.heaps[d] = true
					}
				case *ssa.Alloc:
					if esc(i) {
						m.allocs = true
						for _, n := range x.heapsOfType(i.Type().(*types.Pointer).Elem(), nil) {
							if _, isArr := i.Type().(*types.Pointer).Elem().Underlying().(*types.Array); isArr {
								n = x.C.elemHeapName(i.Type().(*types.Pointer).Elem().Underlying().(*types.Array).Elem())
							}
							m.heaps[n] = true
						}
					}
				case *ssa.MakeSlice:
					m.allocs = true
					if !isByteSlice(i.Type()) {
						m.heaps[x.C.elemHeapName(i.Type().Underlying().(*types.Slice).Elem())] = true
					}
				case *ssa.MakeMap, *ssa.MakeClosure, *ssa.MakeChan:
					m.allocs = true
					if mm, ok := i.(*ssa.MakeMap); ok {
						v, d := x.C.mapHeapNames(mm.Type().Underlying().(*types.Map))
						m.heaps[v] = true
						m.heaps[d] = true
					}
				}
				if ci, ok := in.(ssa.CallInstruction); ok {
					cc := ci.Common()
					if b, ok := cc.Value.(*ssa.Builtin); ok {
						if b.Name() == "append" && !isByteSlice(cc.Args[0].Type()) {
							m.allocs = true
							m.heaps[x.C.elemHeapName(cc.Args[0].Type().Underlying().(*types.Slice).Elem())] = true
						}
						if b.Name() == "delete" {
							if mt, ok := cc.Args[0].Type().Underlying().(*types.Map); ok {
								v, d := x.C.mapHeapNames(mt)
								m.heaps[v] = true
								m.heaps[d] = true
							}
						}
					}
				}
			}
		}
	}
	for _, f := range fns {
		direct(f)
	}
	for changed := true; changed; {
		changed = false
		for _, f := range fns {
			m := sets[f]
			for _, b := range f.Blocks {
				for _, in := range b.Instrs {
					ci, ok := in.(ssa.CallInstruction)
					if !ok {
						continue
					}
					cm := x.calleeModSet(ci.Common(), sets)
					if m.union(cm) {
						changed = true
					}
				}
			}
		}
	}
	return sets
}

// calleeModSet: effects of a call as seen by the caller.
func (x *Exec) calleeModSet(cc *ssa.CallCommon, sets map[*ssa.Function]*modSet) *modSet {
	m := newModSet()
	if _, ok := cc.Value.(*ssa.Builtin); ok {
		return m
	}
	if cc.IsInvoke() {
		key := ifaceMethodKey(cc)
		if con := x.Lib.Funcs[key]; con != nil {
			x.contractMods(con, m)
			return m
		}
		if key == "error.Error" {
			return m
		}
		m.all = true
		m.why = " (" + key + ")"
		return m
	}
	if callee := cc.StaticCallee(); callee != nil {
		key := funcKey(callee)
		if wk := walkKey(key, cc); wk != "" && x.Lib.Funcs[wk] != nil {
			x.contractMods(x.Lib.Funcs[wk], m)
			return m
		}
		if con := x.Lib.Funcs[key]; con != nil {
			x.contractMods(con, m)
			if s, ok := sets[callee]; ok && !con.Extern && con.Trusted == "" {
				// a /repo function: its inferred writes (to fresh memory) still make those heaps change
				m.union(s)
			}
			return m
		}
		if s, ok := sets[callee]; ok {
			// an uncontracted /repo function is inlined: its writes are writes of the caller
			m.union(s)
			for h := range s.heaps {
				m.direct[h] = true
			}
			return m
		}
		if isModelled(key) {
			return m
		}
		m.all = true
		return m
	}
	// call through a function value
	if con := x.Lib.Funcs[funcValueKey(cc.Value.Type())]; con != nil {
		x.contractMods(con, m)
		return m
	}
	m.all = true
	return m
}

func (x *Exec) contractMods(con *FuncContract, m *modSet) {
	if con.Pure {
		// no heap effects; ghost bookkeeping (call logs) is still allowed
		for _, a := range con.Assigns {
			if len(a) > 6 && a[:6] == "ghost:" {
				m.ghosts[a[6:]] = true
			}
		}
		return
	}
	for _, a := range con.Assigns {
		if a == "*" {
			m.all = true
		} else if len(a) > 6 && a[:6] == "ghost:" {
			m.ghosts[a[6:]] = true
		} else {
			m.heaps[a] = true
			m.full[a] = true
		}
	}
	if con.Allocates {
		m.allocs = true
	}
}

// walkKey: a call of a higher-order library function (filepath.Walk) with a function literal of /repo is
// looked up under "<callee>[<literal>]": its summary is stated per literal (trusted, T-walk), the literal's
// per-visit contract is proved. The variables the literal captures are passed as further arguments.
func walkKey(key string, cc *ssa.CallCommon) string {
	if key != "filepath.Walk" || len(cc.Args) != 2 {
		return ""
	}
	a := cc.Args[1]
	if ct, ok := a.(*ssa.ChangeType); ok {
		a = ct.X
	}
	if mc, ok := a.(*ssa.MakeClosure); ok {
		return key + "[" + funcKey(mc.Fn.(*ssa.Function)) + "]"
	}
	return ""
}

// funcValueKey: contract key of calls through a value of a named function type: "funcvalue:pkg.Name"
func funcValueKey(t types.Type) string {
	if n, ok := t.(*types.Named); ok && n.Obj().Pkg() != nil {
		p := shortPkg(n.Obj().Pkg().Path())
		if p == n.Obj().Pkg().Path() {
			p = n.Obj().Pkg().Name()
		}
		return "funcvalue:" + p + "." + n.Obj().Name()
	}
	return "funcvalue:" + t.String()
}

func ifaceMethodKey(cc *ssa.CallCommon) string {
	t := cc.Value.Type()
	name := t.String()
	if n, ok := t.(*types.Named); ok {
		if n.Obj().Pkg() != nil {
			p := shortPkg(n.Obj().Pkg().Path())
			if p == n.Obj().Pkg().Path() {
				p = n.Obj().Pkg().Name()
			}
			name = p + "." + n.Obj().Name()
		} else {
			name = n.Obj().Name()
		}
	}
	return name + "." + cc.Method.Name()
}

// sourceLoopOrdinals is a sanity helper: number of for/range statements in the AST of fn.
func sourceLoopCount(fn *ssa.Function) int {
	n := 0
	if fn.Syntax() == nil {
		return 0
	}
	ast.Inspect(fn.Syntax(), func(nd ast.Node) bool {
		switch nd.(type) {
		case *ast.ForStmt, *ast.RangeStmt:
			n++
		case *ast.FuncLit:
			if nd != fn.Syntax() {
				return false
			}
		}
		return true
	})
	return n
}
