package main

// Forward symbolic execution of go/ssa (naive form) producing verification conditions.

import (
	"fmt"
	"go/constant"
	"go/token"
	"go/types"
	"sort"
	"strings"

	"golang.org/x/tools/go/ssa"
)

type engineError struct{ msg string }

func (x *Exec) bail(format string, a ...interface{}) {
	panic(engineError{fmt.Sprintf(format, a...)})
}

func newExec(P *Program, L *Library) *Exec {
	x := &Exec{P: P, C: newCtx(), Lib: L, maxPaths: 6000, heapSort: map[string]string{}, abstr: map[string]bool{},
		specRec: map[string]bool{}, specInfo: map[string]*specInfo{}, typeCache: map[string]types.Type{}, rawFuncs: map[string]string{}, callOrd: map[string]int{}}
	for _, line := range L.SMT {
		// "fun name ResultType : raw smt declaration" registers a raw function usable from contracts
		if strings.HasPrefix(line, "fun ") {
			rest := strings.TrimPrefix(line, "fun ")
			i := strings.Index(rest, ":")
			hdr := strings.Fields(rest[:i])
			x.rawFuncs[hdr[0]] = hdr[1]
			x.C.decl(strings.TrimSpace(rest[i+1:]))
		} else if strings.HasPrefix(line, "when ") {
			// "when sym1|sym2 : (assert ...)": a fact that is only added to the queries of functions whose
			// obligations mention one of the symbols (keeps unrelated quantified facts out of other proofs)
			rest := strings.TrimPrefix(line, "when ")
			i := strings.Index(rest, ":")
			x.cond = append(x.cond, condDecl{strings.Split(strings.TrimSpace(rest[:i]), "|"), strings.TrimSpace(rest[i+1:])})
		} else {
			x.C.decl(line)
		}
	}
	return x
}

type condDecl struct {
	syms []string
	text string
}

// prelude: the declarations and assumed facts of this run, with the conditional facts whose symbols occur
// in some obligation.
func (x *Exec) prelude() string {
	var b strings.Builder
	b.WriteString(strings.Join(x.C.decls, "\n"))
	b.WriteString("\n")
	occurs := func(sym string) bool {
		pat := "(" + sym + " "
		for _, o := range x.obls {
			if strings.Contains(o.Goal, pat) {
				return true
			}
			for _, p := range o.PC {
				if strings.Contains(p, pat) {
					return true
				}
			}
			for _, d := range o.Defs {
				if strings.Contains(d, pat) {
					return true
				}
			}
		}
		for _, d := range x.C.decls {
			if strings.HasPrefix(d, "(define-fun") && strings.Contains(d, pat) {
				return true
			}
		}
		return false
	}
	for _, c := range x.cond {
		if len(c.syms) == 1 && strings.Contains(c.syms[0], "&") {
			// "a&b": every symbol has to occur
			all := true
			for _, sym := range strings.Split(c.syms[0], "&") {
				if !occurs(strings.TrimSpace(sym)) {
					all = false
				}
			}
			if all {
				b.WriteString(c.text)
				b.WriteString("\n")
			}
			continue
		}
		used := false
		for _, sym := range c.syms {
			pat := "(" + sym + " "
			for _, o := range x.obls {
				if strings.Contains(o.Goal, pat) {
					used = true
				}
				for _, p := range o.PC {
					if used {
						break
					}
					if strings.Contains(p, pat) {
						used = true
					}
				}
				for _, d := range o.Defs {
					if used {
						break
					}
					if strings.Contains(d, pat) {
						used = true
					}
				}
				if used {
					break
				}
			}
			if used {
				break
			}
		}
		if used {
			b.WriteString(c.text)
			b.WriteString("\n")
		}
	}
	return b.String()
}

// emit records one path-level instance of an obligation.
func (x *Exec) emit(st *State, label, kind, goal string, extra []string, pos token.Pos) {
	if goal == "true" {
		// still count it, trivially discharged
	}
	o := &Obligation{Fn: x.curFn, Label: label, Kind: kind, Goal: goal, Taint: st.taint}
	o.Defs = st.defs[:len(st.defs):len(st.defs)]
	o.PC = append(st.pc[:len(st.pc):len(st.pc)], extra...)
	o.Path = strings.Join(st.trace, ".")
	if pos != token.NoPos {
		p := x.P.Prog.Fset.Position(pos)
		o.Pos = fmt.Sprintf("%s:%d", strings.TrimPrefix(p.Filename, repoDir+"/"), p.Line)
	}
	x.obls = append(x.obls, o)
}

// ---------------------------------------------------------------------------
// top level: verify one function against its contract

func (x *Exec) verifyFunc(key string) (err error) {
	defer func() {
		if r := recover(); r != nil {
			switch e := r.(type) {
			case engineError:
				err = fmt.Errorf("%s: %s", key, e.msg)
			case evalError:
				err = fmt.Errorf("%s: contract: %s", key, e.msg)
			default:
				panic(r)
			}
		}
	}()
	fn := x.P.Funcs[key]
	if fn == nil {
		return fmt.Errorf("function %s not found in /repo (contract cannot attach)", key)
	}
	if x.mods == nil {
		x.mods = x.computeModSets()
	}
	x.curFn = key
	x.paths = 0
	con := x.Lib.Funcs[key]
	x.reveal = map[string]bool{}
	if con != nil {
		x.reveal = con.Reveal
	}
	st := newState()
	a0 := x.C.freshName("alloc0")
	x.C.decl(fmt.Sprintf("(declare-const %s Int)", a0))
	x.C.decl(fmt.Sprintf("(assert (> %s 0))", a0))
	st.alloc = a0
	x.alloc0 = a0
	fr := x.newFrame(fn, con, 0)
	fr.allocIn = a0
	if con != nil {
		// an invariant for a loop the compiled function does not have would be ignored silently
		have := map[int]bool{}
		for _, li := range fr.loops {
			have[li.ord] = true
		}
		for ord := range con.Invariants {
			if !have[ord] && len(con.Invariants[ord]) > 0 {
				return fmt.Errorf("%s: invariant for loop %d, but the function has %d loop(s) (loops are numbered in source order among those that survive compilation)", key, ord, len(fr.loops))
			}
		}
	}
	var args []Val
	for _, p := range fn.Params {
		name := "|p_" + p.Name() + "|"
		x.C.decl(fmt.Sprintf("(declare-const %s %s)", name, x.C.sortOf(p.Type())))
		v := Val{T: p.Type(), Term: name}
		st.assume(x.typeInv(p.Type(), name, 2))
		x.assumeExisting(st, v)
		args = append(args, v)
	}
	var fvs []Val
	for _, fv := range fn.FreeVars {
		name := "|fv_" + fv.Name() + "|"
		x.C.decl(fmt.Sprintf("(declare-const %s %s)", name, x.C.sortOf(fv.Type())))
		v := Val{T: fv.Type(), Term: name}
		st.assume(fmt.Sprintf("(and (> %s 0) (< %s %s))", name, name, a0))
		fvs = append(fvs, v)
	}
	x.bindParams(st, fr, args, fvs)
	fr.entry = st.clone()
	// requires
	if con != nil {
		for _, r := range con.Requires {
			var unf []string
			env := x.envFor(fr, st, nil, "requires")
			env.unfold = &unf
			t, e := env.evalBool(r.Expr)
			if e != nil {
				return fmt.Errorf("%s: requires %s: %v", key, r.Label, e)
			}
			st.assume(t)
			for _, u := range unf {
				st.assume(u)
			}
		}
	}
	preGhost := map[string]string{}
	if con != nil {
		for _, gs := range con.GhostSets {
			// old(g) in the postconditions means the value before the function's own ghost assignments
			if _, seen := preGhost["ghost:"+gs.Name]; !seen {
				ty := x.Lib.Ghosts[gs.Name]
				t, gsrt := x.resolveType(x.Lib.GhostPkg[gs.Name], ty)
				if gsrt == "" {
					gsrt = x.C.sortOf(t)
				}
				preGhost["ghost:"+gs.Name] = x.heap(st, "ghost:"+gs.Name, gsrt)
			}
			env := x.envFor(fr, st, nil, "requires")
			var gv Val
			func() {
				defer func() {
					if r := recover(); r != nil {
						if ee, ok := r.(evalError); ok {
							err = fmt.Errorf("%s: ghostset %s: %s", key, gs.Name, ee.msg)
							return
						}
						panic(r)
					}
				}()
				x.quiet++
				defer func() { x.quiet-- }()
				gv = env.eval(gs.Expr)
			}()
			if err != nil {
				return err
			}
			ty := x.Lib.Ghosts[gs.Name]
			t, gsrt := x.resolveType(x.Lib.GhostPkg[gs.Name], ty)
			srt := gsrt
			if srt == "" {
				srt = x.C.sortOf(t)
			}
			x.heap(st, "ghost:"+gs.Name, srt)
			x.setHeap(st, "ghost:"+gs.Name, srt, gv.Term)
		}
	}
	// global axioms
	for _, ax := range x.Lib.Axioms {
		if fn.Pkg != nil && x.Lib.AxPkg[ax] != shortPkg(fn.Pkg.Pkg.Path()) {
			continue // axioms are stated per package
		}
		env := &Env{x: x, st: st, names: map[string]Val{}, bound: map[string]Val{}, pkg: x.Lib.AxPkg[ax]}
		t, e := env.evalBool(ax.Expr)
		if e != nil {
			return fmt.Errorf("axiom %s: %v", ax.Label, e)
		}
		st.assume(t)
		x.C.used["axiom:"+ax.Label] = true
	}
	fr.entry = st.clone()
	for name, v := range preGhost {
		fr.entry.heaps[name] = v
	}
	fr.ret = func(st *State, results []Val) {
		x.checkEnsures(st, fr, results)
	}
	x.top = fr
	x.runBlock(st, fr, fn.Blocks[0], nil)
	return nil
}

func (x *Exec) assumeExisting(st *State, v Val) {
	switch v.T.Underlying().(type) {
	case *types.Slice:
		if !isByteSlice(v.T) {
			st.assume(fmt.Sprintf("(< (s_base %s) %s)", v.Term, st.alloc))
		}
	case *types.Pointer, *types.Map, *types.Chan, *types.Signature:
		st.assume(fmt.Sprintf("(< %s %s)", v.Term, st.alloc))
	case *types.Interface:
		// an existing error value: the *HTTPError in its chain (if any) has been allocated
		if isErrorType(v.T) {
			st.assume(fmt.Sprintf("(and (>= (asHTTP %s) 0) (< (asHTTP %s) %s))", v.Term, v.Term, st.alloc))
		}
	case *types.Struct:
		if isTimeType(v.T) {
			return
		}
		u := v.T.Underlying().(*types.Struct)
		for i := 0; i < u.NumFields(); i++ {
			x.assumeExisting(st, Val{T: u.Field(i).Type(), Term: fmt.Sprintf("(%s %s)", x.C.selName(v.T, i), v.Term)})
		}
	}
}

func (x *Exec) newFrame(fn *ssa.Function, con *FuncContract, depth int) *Frame {
	x.nframes++
	fr := &Frame{id: x.nframes, fn: fn, con: con, depth: depth, names: map[string][]ssa.Value{}, params: map[string]Val{}, escaping: map[*ssa.Alloc]bool{}}
	fr.loops = findLoops(fn)
	for _, b := range fn.Blocks {
		for _, in := range b.Instrs {
			if a, ok := in.(*ssa.Alloc); ok {
				fr.escaping[a] = escapes(a)
				if a.Comment != "" {
					fr.names[a.Comment] = append(fr.names[a.Comment], a)
				}
			}
		}
	}
	return fr
}

func (x *Exec) bindParams(st *State, fr *Frame, args []Val, fvs []Val) {
	for i, p := range fr.fn.Params {
		st.regs[cellKey{fr.id, p}] = args[i]
		fr.params[p.Name()] = args[i]
	}
	for i, fv := range fr.fn.FreeVars {
		st.regs[cellKey{fr.id, fv}] = fvs[i]
		fr.params[fv.Name()] = fvs[i]
	}
}

// envFor builds the name environment of a contract clause of fr's own function.
func (x *Exec) envFor(fr *Frame, st *State, results []Val, where string) *Env {
	env := &Env{x: x, st: st, old: fr.entry, names: map[string]Val{}, bound: map[string]Val{}, frame: fr, where: where}
	if fr.con != nil {
		env.pkg = fr.con.Pkg
	}
	if env.pkg == "" && fr.fn.Pkg != nil {
		env.pkg = shortPkg(fr.fn.Pkg.Pkg.Path())
	}
	env.loopsByOrd = map[int]*loopInfo{}
	for _, li := range fr.loops {
		env.loopsByOrd[li.ord] = li
	}
	for n, v := range fr.params {
		env.names[n] = v
	}
	if where == "invariant" {
		// current values of locals (first declaration of each name; x@k for later ones)
		env.onames = map[string]Val{}
		for n, v := range fr.params {
			env.onames[n] = v
		}
		env.addrs = map[string]Val{}
		for name, allocs := range fr.names {
			for i, a := range allocs {
				if pv, ok := st.regs[cellKey{fr.id, a}]; ok && pv.Loc == nil && pv.Term != "" && i == 0 {
					env.addrs[name] = pv
				}
				v, ok := x.cellValue(st, fr, a.(*ssa.Alloc))
				if !ok {
					continue
				}
				if i == 0 {
					env.names[name] = v
				}
				env.names[fmt.Sprintf("%s@%d", name, i+1)] = v
			}
		}
	}
	if results != nil {
		sig := fr.fn.Signature.Results()
		for i, r := range results {
			if r.Term == "" && r.Loc != nil && r.Tup == nil {
				// a pointer into a slice element / struct field is returned: contracts see a non-nil pointer to a copy
				if _, isPtr := r.T.Underlying().(*types.Pointer); isPtr {
					r = x.materialize(st, r)
					results[i] = r
				}
			}
			name := sig.At(i).Name()
			if fr.con != nil && i < len(fr.con.ResNames) {
				name = fr.con.ResNames[i]
			}
			if name != "" && name != "_" {
				env.names[name] = r
			}
			env.names[fmt.Sprintf("result%d", i)] = r
			if len(results) == 1 {
				env.names["result"] = r
			}
		}
	}
	return env
}

// cellValue reads the current value of a local variable (cell or escaped heap object).
func (x *Exec) cellValue(st *State, fr *Frame, a *ssa.Alloc) (Val, bool) {
	if v, ok := st.cells[cellKey{fr.id, a}]; ok {
		return v, true
	}
	if pv, ok := st.regs[cellKey{fr.id, a}]; ok {
		// escaped variable: pv is the pointer
		et := a.Type().(*types.Pointer).Elem()
		if pv.Loc != nil {
			if pv.Loc.Kind == locArr {
				return Val{}, false
			}
			return x.loadLoc(st, pv.Loc), true
		}
		l := &Loc{Kind: locHeap, Ref: pv.Term, Root: et}
		return x.loadLoc(st, l), true
	}
	return Val{}, false
}

func (x *Exec) checkEnsures(st *State, fr *Frame, results []Val) {
	// vacuity guard: this return must be reachable on at least one path of the function
	x.emit(st, "cover:return", "cover", "false", nil, token.NoPos)
	x.obls[len(x.obls)-1].Cover = true
	if fr.con == nil {
		return
	}
	x.batchSeq++
	for _, c := range fr.con.Ensures {
		var unf []string
		env := x.envFor(fr, st, results, "ensures")
		env.unfold = &unf
		ex := c.Expr
		if w := fr.con.Witness[c.Label]; w != nil {
			ex = instantiate(ex, w)
		}
		t, err := env.evalBool(ex)
		if err != nil {
			x.bail("ensures %s: %v", c.Label, err)
		}
		x.emit(st, c.Label, "ensures", t, unf, token.NoPos)
		x.obls[len(x.obls)-1].Batch = x.batchSeq
		// vacuity guard per clause: the antecedent of an implication must be reachable at some return
		// (a contradiction between assumed contracts would otherwise discharge the clause for free)
		if b, ok := ex.(*EBin); ok && b.Op == "==>" {
			var unf2 []string
			env2 := x.envFor(fr, st, results, "ensures")
			env2.unfold = &unf2
			if a, err := env2.evalBool(b.X); err == nil {
				st2 := st.clone()
				st2.assume(a)
				x.emit(st2, "cover:"+c.Label, "cover", "false", unf2, token.NoPos)
				x.obls[len(x.obls)-1].Cover = true
			}
		}
	}
}

// ---------------------------------------------------------------------------
// blocks, loops

func (x *Exec) runBlock(st *State, fr *Frame, b *ssa.BasicBlock, from *ssa.BasicBlock) {
	if li, ok := fr.loops[b]; ok {
		back := from != nil && li.body[from]
		if !x.loopCut(st, fr, li, back) {
			return
		}
	}
	st.trace = append(st.trace, fmt.Sprintf("%d", b.Index))
	// phis first
	for _, in := range b.Instrs {
		if phi, ok := in.(*ssa.Phi); ok {
			for i, p := range b.Preds {
				if p == from {
					st.regs[cellKey{fr.id, phi}] = x.val(st, fr, phi.Edges[i])
				}
			}
		}
	}
	x.runFrom(st, fr, b, 0)
}

// loopCut handles a loop head. Returns false when the path ends here (back edge).
func (x *Exec) loopCut(st *State, fr *Frame, li *loopInfo, back bool) bool {
	var invs []*Clause
	if fr.con != nil {
		invs = fr.con.Invariants[li.ord]
	}
	evalInv := func(c *Clause, s *State) (string, []string) {
		var unf []string
		env := x.envFor(fr, s, nil, "invariant")
		env.loop = li
		env.unfold = &unf
		t, err := env.evalBool(c.Expr)
		if err != nil {
			x.bail("loop %d invariant %s: %v", li.ord, c.Label, err)
		}
		return t, unf
	}
	phase := "init"
	if back {
		phase = "preserve"
	}
	for _, c := range invs {
		t, unf := evalInv(c, st)
		x.emit(st, c.Label+":"+phase, "invariant-"+phase, t, unf, token.NoPos)
	}
	if back {
		return false
	}
	if fr.con == nil || (len(invs) == 0 && !fr.inlined && fr.depth == 0) {
		// no invariant given: the loop is still cut soundly (everything it may change is havocked)
	}
	// havoc everything the loop may modify
	pre := st.clone()
	for _, a := range li.cells {
		k := cellKey{fr.id, a}
		if cur, ok := st.cells[k]; ok {
			et := a.Type().(*types.Pointer).Elem()
			if cur.Loc != nil || cur.Tup != nil {
				// pointer-valued cell with structure: abstract
				if _, isPtr := et.Underlying().(*types.Pointer); isPtr {
					nv := x.havocVal(st, "loop_"+a.Comment, et)
					x.assumeExisting(st, nv)
					st.cells[k] = nv
					continue
				}
			}
			nv := x.havocVal(st, "loop_"+a.Comment, et)
			x.assumeExisting(st, nv)
			st.cells[k] = nv
		} else if pv, ok := st.regs[k]; ok && pv.Loc == nil {
			// escaped variable modified in the loop: its heap cells are havocked below through the heap sets
			_ = pv
		}
	}
	ms := x.loopMods(fr, li)
	x.applyMods(st, pre, ms, nil)
	if rg := loopSeenRange(li); rg != nil {
		if _, have := st.heaps[seenKey(fr, rg)]; have {
			mt := rg.X.Type().Underlying().(*types.Map)
			nm := x.C.freshName("seen")
			x.C.decl(fmt.Sprintf("(declare-const %s (Array %s Bool))", nm, x.C.sortOf(mt.Key())))
			st.heaps[seenKey(fr, rg)] = nm
			cn := x.C.freshName("seencnt")
			x.C.decl(fmt.Sprintf("(declare-const %s Int)", cn))
			x.C.decl(fmt.Sprintf("(assert (>= %s 0))", cn))
			st.heaps["cnt:"+seenKey(fr, rg)] = cn
		}
	}
	// automatic invariant of range-over-slice loops: -1 <= rangeindex <= len-1
	if li.riCell != nil && li.riLen != nil {
		if rv, ok := st.cells[cellKey{fr.id, li.riCell}]; ok {
			if lv, ok := st.regs[cellKey{fr.id, li.riLen}]; ok {
				st.assume(fmt.Sprintf("(and (<= (- 1) %s) (< %s %s))", rv.Term, rv.Term, lv.Term))
			}
		}
	}
	for _, c := range invs {
		t, unf := evalInv(c, st)
		st.assume(t)
		for _, u := range unf {
			st.assume(u)
		}
	}
	return true
}

// loopMods: heaps possibly written by the loop body (stores, appends, calls).
func (x *Exec) loopMods(fr *Frame, li *loopInfo) *modSet {
	m := newModSet()
	esc := func(a *ssa.Alloc) bool { return escapes(a) }
	for b := range li.body {
		for _, in := range b.Instrs {
			switch i := in.(type) {
			case *ssa.Store:
				names, local := x.storeHeaps(i.Addr, esc)
				if !local {
					for _, n := range names {
						m.heaps[n] = true
						m.direct[n] = true
					}
					if g, ok := i.Addr.(*ssa.Global); ok {
						m.heaps["G_"+mangle(g.Pkg.Pkg.Path()+"."+g.Name())] = true
					}
				}
			case *ssa.MapUpdate:
				if mt, ok := i.Map.Type().Underlying().(*types.Map); ok {
					v, d := x.C.mapHeapNames(mt)
					m.heaps[v] = true
					m.heaps[d] = true
					m.direct[v] = true
					m.direct[d] = true
				}
			case *ssa.Alloc:
				if esc(i) {
					m.allocs = true
					et := i.Type().(*types.Pointer).Elem()
					if arr, isArr := et.Underlying().(*types.Array); isArr {
						m.heaps[x.C.elemHeapName(arr.Elem())] = true
						m.direct[x.C.elemHeapName(arr.Elem())] = true
					} else {
						for _, n := range x.heapsOfType(et, nil) {
							m.heaps[n] = true
						m.direct[n] = true
						}
					}
				}
			case *ssa.MakeSlice:
				m.allocs = true
				if !isByteSlice(i.Type()) {
					m.heaps[x.C.elemHeapName(i.Type().Underlying().(*types.Slice).Elem())] = true
					m.direct[x.C.elemHeapName(i.Type().Underlying().(*types.Slice).Elem())] = true
				}
			case *ssa.MakeMap:
				m.allocs = true
				v, d := x.C.mapHeapNames(i.Type().Underlying().(*types.Map))
				m.heaps[v] = true
				m.heaps[d] = true
				m.direct[v] = true
				m.direct[d] = true
			case *ssa.MakeClosure, *ssa.MakeChan:
				m.allocs = true
			}
			if ci, ok := in.(ssa.CallInstruction); ok {
				cc := ci.Common()
				if b, ok := cc.Value.(*ssa.Builtin); ok {
					if b.Name() == "append" && !isByteSlice(cc.Args[0].Type()) {
						m.allocs = true
						m.heaps[x.C.elemHeapName(cc.Args[0].Type().Underlying().(*types.Slice).Elem())] = true
						m.direct[x.C.elemHeapName(cc.Args[0].Type().Underlying().(*types.Slice).Elem())] = true
					}
					continue
				}
				cm := x.calleeModSet(cc, x.mods)
				if cm.all && !m.all {
					m.why = " (in loop: " + cc.String() + ")"
				}
				m.union(cm)
			}
		}
	}
	return m
}

// applyMods havocs what a loop or a call may have changed. Heaps listed in full are
// havocked completely; the others keep their contents below the allocation frontier of pre.
func (x *Exec) applyMods(st *State, pre *State, ms *modSet, full map[string]bool) {
	if ms.all {
		x.abstr["call with unknown effects"+ms.why] = true
		st.taint = true
		// unknown code may do anything, including what the ghost state stands for (OS calls, backend calls)
		var hn []string
		for name := range x.heapSort {
			hn = append(hn, name)
		}
		sort.Strings(hn)
		for _, name := range hn {
			x.havocHeap(st, name)
		}
		st.heaps["pending:*"] = "full" // heaps not touched so far are havocked at their first access
	}
	if ms.allocs || ms.all {
		a := x.newSym(st, "alloc", "Int")
		st.assume(fmt.Sprintf("(>= %s %s)", a, st.alloc))
		st.alloc = a
	}
	names := sortedKeys(ms.heaps)
	for _, name := range names {
		sortS, known := x.heapSort[name]
		if !known {
			// not touched anywhere so far: the havoc is recorded and takes effect at the first access
			fr := pre.alloc
			if full[name] || ms.full[name] || strings.HasPrefix(name, "G_") || ms.all {
				fr = "full"
			} else if ms.direct[name] {
				top := x.top
				if top == nil || top.con == nil || !top.con.HasAssigns || assignsAllows(top.con, name) {
					fr = "full"
				} else {
					fr = x.alloc0
				}
			}
			x.markPending(st, name, fr)
			continue
		}
		old := st.heaps[name]
		if old == "" {
			old = x.heap(st, name, sortS)
		}
		x.havocHeap(st, name)
		x.closedAt(st, name)
		if full[name] || ms.full[name] || strings.HasPrefix(name, "G_") || ms.all {
			continue
		}
		frontier := pre.alloc
		if ms.direct[name] {
			// written by the code under execution itself: only the frame claim of the function under
			// verification (every store targets memory allocated in this activation, proved as the
			// "frame" obligations) bounds what may have changed
			top := x.top
			if top == nil || top.con == nil || !top.con.HasAssigns || assignsAllows(top.con, name) {
				continue
			}
			frontier = x.alloc0
		}
		nw := st.heaps[name]
		st.assume(fmt.Sprintf("(forall ((r Int)) (! (=> (< r %s) (= (select %s r) (select %s r))) :pattern ((select %s r))))", frontier, nw, old, nw))
	}
	for _, g := range sortedKeys(ms.ghosts) {
		x.havocHeap(st, "ghost:"+g)
	}
}

// ---------------------------------------------------------------------------
// values

func (x *Exec) val(st *State, fr *Frame, v ssa.Value) Val {
	switch c := v.(type) {
	case *ssa.Const:
		return x.constVal(c)
	case *ssa.Global:
		return Val{T: c.Type(), Loc: &Loc{Kind: locGlobal, Name: c.Pkg.Pkg.Path() + "." + c.Name(), Root: c.Type().(*types.Pointer).Elem()}}
	case *ssa.Function:
		id := x.C.typeID(types.NewPointer(types.NewNamed(types.NewTypeName(token.NoPos, nil, "func:"+c.String(), nil), types.Typ[types.Int], nil)))
		return Val{T: c.Type(), Term: fmt.Sprintf("%d", 1000000+id)}
	case *ssa.Builtin:
		return Val{T: c.Type(), Term: "0"}
	}
	if r, ok := st.regs[cellKey{fr.id, v}]; ok {
		return r
	}
	x.bail("no value for %s", describe(v))
	return Val{}
}

func (x *Exec) constVal(c *ssa.Const) Val {
	t := c.Type()
	if c.Value == nil {
		if b, ok := t.Underlying().(*types.Basic); ok && b.Kind() == types.UntypedNil {
			return Val{T: t, Term: "0"}
		}
		return Val{T: t, Term: x.C.zero(t)}
	}
	switch c.Value.Kind() {
	case constant.Bool:
		if constant.BoolVal(c.Value) {
			return Val{T: t, Term: "true"}
		}
		return Val{T: t, Term: "false"}
	case constant.String:
		return Val{T: t, Term: smtString(constant.StringVal(c.Value))}
	case constant.Int:
		if v, ok := constant.Int64Val(c.Value); ok {
			return Val{T: t, Term: smtInt(v)}
		}
		if v, ok := constant.Uint64Val(c.Value); ok {
			return Val{T: t, Term: fmt.Sprintf("%d", v)}
		}
	case constant.Float:
		f, _ := constant.Float64Val(c.Value)
		return Val{T: t, Term: fmt.Sprintf("%f", f)}
	}
	x.bail("unsupported constant %s", c)
	return Val{}
}

// ptrLoc turns a pointer value into a location.
func (x *Exec) ptrLoc(st *State, v Val) *Loc {
	if v.Loc != nil {
		return v.Loc
	}
	pt, ok := v.T.Underlying().(*types.Pointer)
	if !ok {
		x.bail("ptrLoc on non-pointer %s", v.T)
	}
	if _, isArr := pt.Elem().Underlying().(*types.Array); isArr {
		return &Loc{Kind: locArr, Ref: v.Term, Root: pt.Elem()}
	}
	return &Loc{Kind: locHeap, Ref: v.Term, Root: pt.Elem()}
}

// nilCheck emits the safety obligation for dereferencing v.
func (x *Exec) nilCheck(st *State, v Val, in ssa.Instruction) {
	if v.Loc != nil {
		return
	}
	if strings.HasPrefix(v.Term, "|ref!") {
		return
	}
	x.emit(st, "safety:nil-deref", "safety", fmt.Sprintf("(not (= %s 0))", v.Term), nil, in.Pos())
	st.assume(fmt.Sprintf("(not (= %s 0))", v.Term))
}

// ---------------------------------------------------------------------------
// instructions

func (x *Exec) runFrom(st *State, fr *Frame, b *ssa.BasicBlock, idx int) {
	for i := idx; i < len(b.Instrs); i++ {
		in := b.Instrs[i]
		set := func(v Val) { st.regs[cellKey{fr.id, in.(ssa.Value)}] = v }
		switch n := in.(type) {
		case *ssa.DebugRef, *ssa.Phi:
		case *ssa.Alloc:
			set(x.doAlloc(st, fr, n))
		case *ssa.Store:
			addr := x.val(st, fr, n.Addr)
			v := x.val(st, fr, n.Val)
			if addr.Loc == nil {
				x.nilCheck(st, addr, n)
			}
			l := x.ptrLoc(st, addr)
			x.frameCheck(st, fr, l, n)
			x.storeLoc(st, l, x.convertForStore(st, v, l.typeAt()))
		case *ssa.UnOp:
			set(x.doUnOp(st, fr, n))
		case *ssa.BinOp:
			set(x.doBinOp(st, fr, n))
		case *ssa.FieldAddr:
			pv := x.val(st, fr, n.X)
			if pv.Loc == nil {
				x.nilCheck(st, pv, n)
			}
			l := x.ptrLoc(st, pv)
			if l.Kind == locNone {
				set(Val{T: n.Type(), Loc: l})
				break
			}
			set(Val{T: n.Type(), Loc: l.extend(n.Field)})
		case *ssa.Field:
			sv := x.val(st, fr, n.X)
			term, ty := x.selectPath(sv.T, sv.Term, []int{n.Field})
			v := Val{T: ty, Term: term, Taint: sv.Taint}
			x.assumeLoaded(st, v)
			set(v)
		case *ssa.IndexAddr:
			set(x.doIndexAddr(st, fr, n))
		case *ssa.Index:
			set(x.doIndex(st, fr, n))
		case *ssa.Lookup:
			set(x.doLookup(st, fr, n))
		case *ssa.Slice:
			set(x.doSlice(st, fr, n))
		case *ssa.MakeSlice:
			set(x.doMakeSlice(st, fr, n))
		case *ssa.MakeMap:
			set(x.doMakeMap(st, fr, n))
		case *ssa.MapUpdate:
			x.doMapUpdate(st, fr, n)
		case *ssa.MakeInterface:
			set(x.makeIface(st, x.val(st, fr, n.X), n.Type()))
		case *ssa.ChangeInterface:
			v := x.val(st, fr, n.X)
			v.T = n.Type()
			set(v)
		case *ssa.ChangeType:
			v := x.val(st, fr, n.X)
			v.T = n.Type()
			set(v)
		case *ssa.Convert:
			set(x.doConvert(st, fr, n))
		case *ssa.TypeAssert:
			set(x.doTypeAssert(st, fr, n))
		case *ssa.Extract:
			t := x.val(st, fr, n.Tuple)
			if t.Tup == nil || n.Index >= len(t.Tup) {
				x.bail("extract from non-tuple %s", describe(n.Tuple))
			}
			set(t.Tup[n.Index])
		case *ssa.MakeClosure:
			set(x.doMakeClosure(st, fr, n))
		case *ssa.MakeChan:
			set(Val{T: n.Type(), Term: x.newRef(st)})
		case *ssa.Call:
			// a call may fork paths (inlining): continue in the continuation
			x.doCall(st, fr, n.Common(), n, func(st *State, res Val) {
				st.regs[cellKey{fr.id, n}] = res
				x.runFrom(st, fr, b, i+1)
			})
			return
		case *ssa.Defer:
			d := deferred{call: n.Common(), pos: n}
			for _, a := range n.Common().Args {
				d.args = append(d.args, x.val(st, fr, a))
			}
			if !n.Common().IsInvoke() {
				if _, isB := n.Common().Value.(*ssa.Builtin); !isB {
					d.fn = x.val(st, fr, n.Common().Value)
				}
			} else {
				d.fn = x.val(st, fr, n.Common().Value)
			}
			st.defers[fr.id] = append(st.defers[fr.id], d)
		case *ssa.RunDefers:
			ds := st.defers[fr.id]
			st.defers[fr.id] = nil
			x.runDefers(st, fr, ds, func(st *State) {
				x.runFrom(st, fr, b, i+1)
			})
			return
		case *ssa.Go:
			x.abstr["go statement"] = true
			st.taint = true
		case *ssa.Send:
			x.abstr["channel send"] = true
			st.taint = true
		case *ssa.Select:
			x.abstr["select"] = true
			st.taint = true
			set(x.havocTuple(st, n.Type()))
		case *ssa.Range:
			set(x.doRange(st, fr, n))
		case *ssa.Next:
			set(x.doNext(st, fr, n))
		case *ssa.Panic:
			x.emit(st, "safety:panic", "safety", "false", nil, n.Pos())
			return
		case *ssa.If:
			c := x.val(st, fr, n.Cond)
			x.paths++
			if x.paths > x.maxPaths {
				x.bail("more than %d paths", x.maxPaths)
			}
			if c.Term == "true" {
				x.runBlock(st, fr, b.Succs[0], b)
				return
			}
			if c.Term == "false" {
				x.runBlock(st, fr, b.Succs[1], b)
				return
			}
			t := st.clone()
			t.assume(c.Term)
			x.runBlock(t, fr, b.Succs[0], b)
			st.assume(not(c.Term))
			x.runBlock(st, fr, b.Succs[1], b)
			return
		case *ssa.Jump:
			x.runBlock(st, fr, b.Succs[0], b)
			return
		case *ssa.Return:
			var res []Val
			for _, r := range n.Results {
				res = append(res, x.val(st, fr, r))
			}
			fr.ret(st, res)
			return
		default:
			x.bail("unsupported instruction %T: %s", in, in)
		}
	}
}

func (x *Exec) havocTuple(st *State, t types.Type) Val {
	tup, ok := t.(*types.Tuple)
	if !ok {
		v := x.havocVal(st, "abs", t)
		v.Taint = true
		x.assumeExistingHavoc(st, v)
		return v
	}
	var vs []Val
	for i := 0; i < tup.Len(); i++ {
		v := x.havocVal(st, "abs", tup.At(i).Type())
		v.Taint = true
		x.assumeExistingHavoc(st, v)
		vs = append(vs, v)
	}
	return Val{T: t, Tup: vs}
}

func (x *Exec) assumeExistingHavoc(st *State, v Val) {
	if v.T == nil {
		return
	}
	x.assumeExisting(st, v)
}

// convertForStore: an untyped nil constant stored into a typed location
func (x *Exec) convertForStore(st *State, v Val, want types.Type) Val {
	if v.Loc != nil || v.Tup != nil {
		return v
	}
	ws := x.C.sortOf(want)
	if v.T != nil {
		if b, ok := v.T.Underlying().(*types.Basic); ok && b.Kind() == types.UntypedNil {
			return Val{T: want, Term: x.C.zero(want)}
		}
		if hs := x.C.sortOf(v.T); hs != ws {
			x.bail("store sort mismatch: %s into %s", hs, ws)
		}
	}
	return v
}

func (x *Exec) doAlloc(st *State, fr *Frame, n *ssa.Alloc) Val {
	et := n.Type().(*types.Pointer).Elem()
	if strings.Contains(et.String(), "deferStack") {
		st.cells[cellKey{fr.id, n}] = Val{T: et, Term: "0"}
		return Val{T: n.Type(), Loc: &Loc{Kind: locCell, Cell: cellKey{fr.id, n}, Root: et}}
	}
	if arr, ok := et.Underlying().(*types.Array); ok {
		base := x.newRef(st)
		name, srt := x.C.elemHeapName(arr.Elem()), x.C.elemHeapSort(arr.Elem())
		h := x.heap(st, name, srt)
		x.setHeap(st, name, srt, fmt.Sprintf("(store %s %s ((as const (Array Int %s)) %s))", h, base, x.C.sortOf(arr.Elem()), x.C.zero(arr.Elem())))
		return Val{T: n.Type(), Loc: &Loc{Kind: locArr, Ref: base, Root: et}}
	}
	if !fr.escaping[n] && !n.Heap {
		st.cells[cellKey{fr.id, n}] = Val{T: et, Term: x.C.zero(et)}
		return Val{T: n.Type(), Loc: &Loc{Kind: locCell, Cell: cellKey{fr.id, n}, Root: et}}
	}
	if !fr.escaping[n] {
		// heap-flagged but only used locally
		st.cells[cellKey{fr.id, n}] = Val{T: et, Term: x.C.zero(et)}
		return Val{T: n.Type(), Loc: &Loc{Kind: locCell, Cell: cellKey{fr.id, n}, Root: et}}
	}
	ref := x.newRef(st)
	l := &Loc{Kind: locHeap, Ref: ref, Root: et}
	x.storeLoc(st, l, Val{T: et, Term: x.C.zero(et)})
	return Val{T: n.Type(), Term: ref}
}

// frameCheck: a store must target memory allocated in this activation unless the contract
// of the function under verification lists the heap in its assigns clause.
func (x *Exec) frameCheck(st *State, fr *Frame, l *Loc, in ssa.Instruction) {
	top := x.top
	if top == nil {
		return
	}
	var name string
	switch l.Kind {
	case locHeap, locElem:
		name, _, _, _ = x.containerHeap(st, l)
		if l.Kind == locHeap && isStructT(l.Root) && len(l.Path) == 0 {
			name = x.C.heapFieldName(l.Root, 0)
			if l.Root.Underlying().(*types.Struct).NumFields() == 0 {
				return
			}
		}
	case locGlobal:
		name = "G_" + mangle(l.Name)
	default:
		return
	}
	if strings.HasPrefix(l.Ref, "|ref!") {
		return // allocated on this path
	}
	if top.con != nil && assignsAllows(top.con, name) {
		return
	}
	if top.con == nil || !top.con.HasAssigns {
		// no frame claimed: nothing to prove
		return
	}
	if l.Kind == locGlobal {
		x.emit(st, "frame", "frame", "false", nil, in.Pos())
		return
	}
	x.emit(st, "frame", "frame", fmt.Sprintf("(>= %s %s)", l.Ref, top.allocIn), nil, in.Pos())
}

func assignsAllows(con *FuncContract, heap string) bool {
	for _, a := range con.Assigns {
		if a == "*" || a == heap {
			return true
		}
	}
	return false
}

func (x *Exec) doUnOp(st *State, fr *Frame, n *ssa.UnOp) Val {
	v := x.val(st, fr, n.X)
	switch n.Op {
	case token.MUL:
		if v.Loc == nil {
			x.nilCheck(st, v, n)
		}
		l := x.ptrLoc(st, v)
		r := x.loadLoc(st, l)
		if r.T == nil {
			r.T = n.Type()
		}
		return r
	case token.NOT:
		return Val{T: n.Type(), Term: not(v.Term), Taint: v.Taint}
	case token.SUB:
		return Val{T: n.Type(), Term: "(- " + v.Term + ")", Taint: v.Taint}
	case token.ARROW:
		x.abstr["channel receive"] = true
		st.taint = true
		if n.CommaOk {
			return x.havocTuple(st, n.Type())
		}
		r := x.havocVal(st, "recv", n.Type())
		x.assumeExisting(st, r)
		return r
	case token.XOR:
		return Val{T: n.Type(), Term: fmt.Sprintf("(- (- %s) 1)", v.Term)}
	}
	x.bail("unsupported unary op %s", n)
	return Val{}
}

func (x *Exec) doBinOp(st *State, fr *Frame, n *ssa.BinOp) Val {
	a := x.val(st, fr, n.X)
	b := x.val(st, fr, n.Y)
	out := func(t string) Val { return Val{T: n.Type(), Term: t, Taint: a.Taint || b.Taint} }
	switch n.Op {
	case token.EQL, token.NEQ:
		t := x.equal(st, a, b)
		if n.Op == token.NEQ {
			t = not(t)
		}
		return out(t)
	}
	at, bt := a.Term, b.Term
	srt := x.C.sortOf(n.X.Type())
	switch n.Op {
	case token.LSS, token.LEQ, token.GTR, token.GEQ:
		if srt == "String" {
			switch n.Op {
			case token.LSS:
				return out(fmt.Sprintf("(str.< %s %s)", at, bt))
			case token.LEQ:
				return out(fmt.Sprintf("(str.<= %s %s)", at, bt))
			case token.GTR:
				return out(fmt.Sprintf("(str.< %s %s)", bt, at))
			default:
				return out(fmt.Sprintf("(str.<= %s %s)", bt, at))
			}
		}
		return out(fmt.Sprintf("(%s %s %s)", n.Op.String(), at, bt))
	case token.ADD:
		if srt == "String" {
			return out(fmt.Sprintf("(str.++ %s %s)", at, bt))
		}
		x.overflowCheck(st, n, fmt.Sprintf("(+ %s %s)", at, bt))
		return out(fmt.Sprintf("(+ %s %s)", at, bt))
	case token.SUB:
		x.overflowCheck(st, n, fmt.Sprintf("(- %s %s)", at, bt))
		return out(fmt.Sprintf("(- %s %s)", at, bt))
	case token.MUL:
		x.overflowCheck(st, n, fmt.Sprintf("(* %s %s)", at, bt))
		return out(fmt.Sprintf("(* %s %s)", at, bt))
	case token.QUO:
		if bt == "0" {
			x.emit(st, "safety:div-zero", "safety", "false", nil, n.Pos())
		} else if _, isConst := n.Y.(*ssa.Const); !isConst {
			x.emit(st, "safety:div-zero", "safety", fmt.Sprintf("(not (= %s 0))", bt), nil, n.Pos())
		}
		return out(goDiv(at, bt))
	case token.REM:
		if _, isConst := n.Y.(*ssa.Const); !isConst {
			x.emit(st, "safety:div-zero", "safety", fmt.Sprintf("(not (= %s 0))", bt), nil, n.Pos())
		}
		return out(goRem(at, bt))
	case token.AND:
		if srt == "Bool" {
			return out(and(at, bt))
		}
		return out(fmt.Sprintf("(bitand %s %s)", at, bt))
	case token.OR:
		if srt == "Bool" {
			return out(or(at, bt))
		}
		return out(fmt.Sprintf("(bitor %s %s)", at, bt))
	}
	x.abstr["binary operator "+n.Op.String()] = true
	st.taint = true
	return x.havocVal(st, "binop", n.Type())
}

// overflowCheck: integers are mathematical in the model; every explicit + - * on a machine integer type gets the
// obligation that the mathematical result is representable (so the model and the machine agree). The implicit
// counter of a range loop (rangeindex, bounded by a length) is exempt.
func (x *Exec) overflowCheck(st *State, n *ssa.BinOp, res string) {
	b, ok := n.Type().Underlying().(*types.Basic)
	if !ok || b.Info()&types.IsInteger == 0 {
		return
	}
	if u, ok := n.X.(*ssa.UnOp); ok {
		if al, ok := u.X.(*ssa.Alloc); ok && al.Comment == "rangeindex" {
			return
		}
	}
	var lo, hi string
	switch b.Kind() {
	case types.Int, types.Int64:
		lo, hi = "(- 9223372036854775808)", "9223372036854775807"
	case types.Int32:
		lo, hi = "(- 2147483648)", "2147483647"
	case types.Int16:
		lo, hi = "(- 32768)", "32767"
	case types.Int8:
		lo, hi = "(- 128)", "127"
	case types.Uint, types.Uint64, types.Uintptr:
		lo, hi = "0", "18446744073709551615"
	case types.Uint32:
		lo, hi = "0", "4294967295"
	case types.Uint16:
		lo, hi = "0", "65535"
	case types.Uint8:
		lo, hi = "0", "255"
	default:
		return
	}
	x.emit(st, "safety:overflow", "safety", fmt.Sprintf("(and (<= %s %s) (<= %s %s))", lo, res, res, hi), nil, n.Pos())
}

// equal builds the equality term of two Go values of the same static type.
func (x *Exec) equal(st *State, a, b Val) string {
	isNilConst := func(v Val) bool {
		return v.Loc == nil && (v.Term == "0" || v.Term == "nilI" || v.Term == "nilS")
	}
	if a.Loc != nil || b.Loc != nil {
		// structured pointers are never nil; equality between two of them is decided structurally when possible
		if a.Loc != nil && b.Loc != nil {
			if a.Loc.Kind == b.Loc.Kind && a.Loc.Ref == b.Loc.Ref && a.Loc.Idx == b.Loc.Idx && a.Loc.Cell == b.Loc.Cell && fmt.Sprint(a.Loc.Path) == fmt.Sprint(b.Loc.Path) {
				return "true"
			}
		}
		other := b
		self := a
		if a.Loc == nil {
			other, self = a, b
		}
		if other.Loc == nil && isNilConst(other) {
			return "false"
		}
		if t, ok := x.termOf(st, self); ok && other.Loc == nil {
			return fmt.Sprintf("(= %s %s)", t, other.Term)
		}
		x.abstr["comparison of interior pointers"] = true
		st.taint = true
		return x.newSym(st, "ptreq", "Bool")
	}
	sa := x.C.sortOf(a.T)
	if sa == "Slice" {
		// only comparison with nil is legal Go
		o := a
		if a.Term == "nilS" {
			o = b
		}
		return fmt.Sprintf("(= (s_base %s) 0)", o.Term)
	}
	at, bt := a.Term, b.Term
	// untyped nil against typed value
	if sb := x.C.sortOf(b.T); sa != sb {
		if isNilConst(a) {
			at = x.C.zero(b.T)
		} else if isNilConst(b) {
			bt = x.C.zero(a.T)
		} else {
			x.bail("equality between sorts %s and %s", sa, sb)
		}
	}
	return fmt.Sprintf("(= %s %s)", at, bt)
}

func (x *Exec) doIndexAddr(st *State, fr *Frame, n *ssa.IndexAddr) Val {
	base := x.val(st, fr, n.X)
	idx := x.val(st, fr, n.Index)
	switch t := n.X.Type().Underlying().(type) {
	case *types.Pointer: // pointer to array
		arr := t.Elem().Underlying().(*types.Array)
		l := x.ptrLoc(st, base)
		if l.Kind != locArr {
			x.bail("index into non-array pointer")
		}
		if _, isConst := n.Index.(*ssa.Const); !isConst {
			x.emit(st, "safety:index", "safety", fmt.Sprintf("(and (<= 0 %s) (< %s %d))", idx.Term, idx.Term, arr.Len()), nil, n.Pos())
		}
		return Val{T: n.Type(), Loc: &Loc{Kind: locElem, Ref: l.Ref, Idx: idx.Term, Root: arr.Elem()}}
	case *types.Slice:
		if isByteSlice(n.X.Type()) {
			x.abstr["address of byte-slice element"] = true
			st.taint = true
			return Val{T: n.Type(), Loc: &Loc{Kind: locNone, Root: t.Elem()}}
		}
		x.emit(st, "safety:index", "safety", fmt.Sprintf("(and (<= 0 %s) (< %s (s_len %s)))", idx.Term, idx.Term, base.Term), nil, n.Pos())
		st.assume(fmt.Sprintf("(and (<= 0 %s) (< %s (s_len %s)))", idx.Term, idx.Term, base.Term))
		abs := idx.Term
		return Val{T: n.Type(), Loc: &Loc{Kind: locElem, Ref: "(s_base " + base.Term + ")", Idx: abs, Root: t.Elem()}}
	}
	x.bail("unsupported IndexAddr on %s", n.X.Type())
	return Val{}
}

func (x *Exec) doIndex(st *State, fr *Frame, n *ssa.Index) Val {
	base := x.val(st, fr, n.X)
	idx := x.val(st, fr, n.Index)
	if x.C.sortOf(n.X.Type()) == "String" {
		x.emit(st, "safety:index", "safety", fmt.Sprintf("(and (<= 0 %s) (< %s (str.len %s)))", idx.Term, idx.Term, base.Term), nil, n.Pos())
		return Val{T: n.Type(), Term: fmt.Sprintf("(str.to_code (str.at %s %s))", base.Term, idx.Term)}
	}
	x.abstr["index of array value"] = true
	st.taint = true
	return x.havocVal(st, "idx", n.Type())
}

func (x *Exec) doSlice(st *State, fr *Frame, n *ssa.Slice) Val {
	base := x.val(st, fr, n.X)
	var lo, hi string
	if n.Low != nil {
		lo = x.val(st, fr, n.Low).Term
	} else {
		lo = "0"
	}
	if n.Max != nil {
		x.abstr["3-index slice"] = true
		st.taint = true
	}
	switch t := n.X.Type().Underlying().(type) {
	case *types.Pointer:
		arr := t.Elem().Underlying().(*types.Array)
		l := x.ptrLoc(st, base)
		if n.High != nil {
			hi = x.val(st, fr, n.High).Term
		} else {
			hi = fmt.Sprintf("%d", arr.Len())
		}
		if isByteSlice(n.Type()) {
			x.abstr["byte array sliced"] = true
			st.taint = true
			bv := x.havocVal(st, "bytes", n.Type())
			if x.C.sortOf(n.Type()) == "String" {
				// the contents are not modelled, the length is
				st.assume(fmt.Sprintf("(= (str.len %s) (- %s %s))", bv.Term, hi, lo))
			}
			return bv
		}
		if lo == "0" && n.High == nil {
			return Val{T: n.Type(), Term: fmt.Sprintf("(mkSlice %s %d %d)", l.Ref, arr.Len(), arr.Len())}
		}
		x.emit(st, "safety:slice-bounds", "safety", fmt.Sprintf("(and (<= 0 %s) (<= %s %s) (<= %s %d))", lo, lo, hi, hi, arr.Len()), nil, n.Pos())
		if lo != "0" {
			// slices are modelled without an offset: a re-slice that drops a prefix is abstracted
			x.abstr["re-slice with non-zero low bound"] = true
			st.taint = true
			r := x.havocVal(st, "reslice", n.Type())
			x.assumeExisting(st, r)
			return r
		}
		return Val{T: n.Type(), Term: fmt.Sprintf("(mkSlice %s %s %d)", l.Ref, hi, arr.Len())}
	case *types.Basic: // string
		if n.High != nil {
			hi = x.val(st, fr, n.High).Term
		} else {
			hi = fmt.Sprintf("(str.len %s)", base.Term)
		}
		x.emit(st, "safety:slice-bounds", "safety", fmt.Sprintf("(and (<= 0 %s) (<= %s %s) (<= %s (str.len %s)))", lo, lo, hi, hi, base.Term), nil, n.Pos())
		return Val{T: n.Type(), Term: fmt.Sprintf("(str.substr %s %s (- %s %s))", base.Term, lo, hi, lo)}
	case *types.Slice:
		if isByteSlice(n.X.Type()) {
			if n.High != nil {
				hi = x.val(st, fr, n.High).Term
			} else {
				hi = fmt.Sprintf("(str.len %s)", base.Term)
			}
			x.emit(st, "safety:slice-bounds", "safety", fmt.Sprintf("(and (<= 0 %s) (<= %s %s) (<= %s (str.len %s)))", lo, lo, hi, hi, base.Term), nil, n.Pos())
			return Val{T: n.Type(), Term: fmt.Sprintf("(str.substr %s %s (- %s %s))", base.Term, lo, hi, lo)}
		}
		if n.High != nil {
			hi = x.val(st, fr, n.High).Term
		} else {
			hi = fmt.Sprintf("(s_len %s)", base.Term)
		}
		x.emit(st, "safety:slice-bounds", "safety", fmt.Sprintf("(and (<= 0 %s) (<= %s %s) (<= %s (s_cap %s)))", lo, lo, hi, hi, base.Term), nil, n.Pos())
		if lo != "0" {
			x.abstr["re-slice with non-zero low bound"] = true
			st.taint = true
			r := x.havocVal(st, "reslice", n.Type())
			x.assumeExisting(st, r)
			return r
		}
		return Val{T: n.Type(), Term: fmt.Sprintf("(mkSlice (s_base %s) %s (s_cap %s))", base.Term, hi, base.Term)}
	}
	x.bail("unsupported Slice of %s", n.X.Type())
	return Val{}
}

func (x *Exec) doMakeSlice(st *State, fr *Frame, n *ssa.MakeSlice) Val {
	ln := x.val(st, fr, n.Len)
	cp := x.val(st, fr, n.Cap)
	if isByteSlice(n.Type()) {
		x.abstr["make([]byte)"] = true
		st.taint = true
		return x.havocVal(st, "bytes", n.Type())
	}
	x.emit(st, "safety:makeslice", "safety", fmt.Sprintf("(and (<= 0 %s) (<= %s %s))", ln.Term, ln.Term, cp.Term), nil, n.Pos())
	et := n.Type().Underlying().(*types.Slice).Elem()
	base := x.newRef(st)
	name, srt := x.C.elemHeapName(et), x.C.elemHeapSort(et)
	h := x.heap(st, name, srt)
	x.setHeap(st, name, srt, fmt.Sprintf("(store %s %s ((as const (Array Int %s)) %s))", h, base, x.C.sortOf(et), x.C.zero(et)))
	return Val{T: n.Type(), Term: fmt.Sprintf("(mkSlice %s %s %s)", base, ln.Term, cp.Term)}
}

func (x *Exec) doConvert(st *State, fr *Frame, n *ssa.Convert) Val {
	v := x.val(st, fr, n.X)
	from, to := x.C.sortOf(n.X.Type()), x.C.sortOf(n.Type())
	if from == to {
		r := Val{T: n.Type(), Term: v.Term, Taint: v.Taint}
		if tb, ok := n.Type().Underlying().(*types.Basic); ok && tb.Info()&types.IsUnsigned != 0 {
			if fb, ok := n.X.Type().Underlying().(*types.Basic); ok && fb.Info()&types.IsUnsigned == 0 && fb.Info()&types.IsInteger != 0 {
				// signed -> unsigned: mathematical integers are only faithful for non-negative values
				x.emit(st, "safety:conversion-range", "safety", fmt.Sprintf("(>= %s 0)", v.Term), nil, n.Pos())
			}
		}
		return r
	}
	x.abstr[fmt.Sprintf("conversion %s -> %s", n.X.Type(), n.Type())] = true
	st.taint = true
	return x.havocVal(st, "conv", n.Type())
}

// ---------------------------------------------------------------------------
// interfaces

func (x *Exec) makeIface(st *State, v Val, it types.Type) Val {
	dt := v.T
	id := x.C.typeID(dt)
	var payload string
	if v.Loc != nil {
		t, ok := x.termOf(st, v)
		if !ok {
			x.abstr["interior pointer boxed in interface"] = true
			st.taint = true
			t = x.newSym(st, "absptr", "Int")
			st.assume(fmt.Sprintf("(> %s 0)", t))
		}
		payload = t
	} else {
		switch x.C.sortOf(dt) {
		case "Int":
			payload = v.Term
		default:
			box, _ := x.C.boxFuncs(x.C.sortOf(dt))
			payload = fmt.Sprintf("(%s %s)", box, v.Term)
		}
	}
	term := fmt.Sprintf("(mkIface %d %s)", id, payload)
	r := Val{T: it, Term: term, Taint: v.Taint}
	// a boxed string mentions the host path iff the string does; boxed numbers and booleans never do
	switch x.C.sortOf(dt) {
	case "String":
		x.declFmt()
		if strings.HasPrefix(v.Term, "\"") {
			st.assume(fmt.Sprintf("(not (hostPath %s))", term)) // a string constant of the program
		} else {
			st.assume(fmt.Sprintf("(= (hostPath %s) (strHostPath %s))", term, v.Term))
		}
	case "Int", "Bool":
		if _, isBasic := dt.Underlying().(*types.Basic); isBasic {
			st.assume(fmt.Sprintf("(not (hostPath %s))", term))
		}
	}
	x.errorFacts(st, r, dt, payload)
	return r
}

// errorFacts: observers of the error algebra for values built inside /repo.
func (x *Exec) errorFacts(st *State, e Val, dyn types.Type, payload string) {
	pt, ok := dyn.(*types.Pointer)
	if !ok {
		return
	}
	named, ok := pt.Elem().(*types.Named)
	if !ok || named.Obj().Pkg() == nil {
		return
	}
	full := named.Obj().Pkg().Path() + "." + named.Obj().Name()
	switch full {
	case modPath + "/internal.HTTPError":
		// Unwrap() returns Err: every chain observer other than asHTTP is forwarded from Err
		ht := named
		errIdx := fieldIndex(ht, "Err")
		inner := fmt.Sprintf("(select %s %s)", x.heap(st, x.C.heapFieldName(ht, errIdx), x.C.heapFieldSort(ht, errIdx)), payload)
		st.assume(fmt.Sprintf("(=> (not (= %s 0)) (and (= (asHTTP %s) %s) %s (= (hostPath %s) (hostPath %s)) (not (osIsExist %s)) (not (osIsNotExist %s))))",
			payload, e.Term, payload, obsForward(e.Term, inner, "asHTTP"), e.Term, inner, e.Term, e.Term))
	case modPath + "/internal.Error":
		st.assume(fmt.Sprintf("(=> (not (= %s 0)) (and (= (asDavErr %s) %s) %s (not (hostPath %s)) (not (osIsExist %s)) (not (osIsNotExist %s))))",
			payload, e.Term, payload, obsNone(e.Term, "asDavErr"), e.Term, e.Term, e.Term))
	}
}

func fieldIndex(t types.Type, name string) int {
	u := t.Underlying().(*types.Struct)
	for i := 0; i < u.NumFields(); i++ {
		if u.Field(i).Name() == name {
			return i
		}
	}
	panic("no field " + name + " in " + t.String())
}

func (x *Exec) httpErrType() *types.Named {
	for _, p := range x.P.Pkgs {
		if p.PkgPath == modPath+"/internal" {
			return p.Types.Scope().Lookup("HTTPError").Type().(*types.Named)
		}
	}
	panic("internal.HTTPError not found")
}

func (x *Exec) httpErrPtrType() types.Type { return types.NewPointer(x.httpErrType()) }

func (x *Exec) httpCodeHeap() string {
	ht := x.httpErrType()
	return x.C.heapFieldName(ht, fieldIndex(ht, "Code"))
}

func (x *Exec) doTypeAssert(st *State, fr *Frame, n *ssa.TypeAssert) Val {
	v := x.val(st, fr, n.X)
	at := n.AssertedType
	var ok, res string
	var rv Val
	if _, isIface := at.Underlying().(*types.Interface); isIface {
		// whether a value implements the interface is a function of its dynamic type; for the dynamic types
		// seen so far the method sets decide
		impl := fmt.Sprintf("impl_%d", x.C.typeID(at))
		x.C.decl(fmt.Sprintf("(declare-fun %s (Int) Bool)", impl))
		if it, isI := at.Underlying().(*types.Interface); isI {
			for i, t := range x.C.typeByID {
				if _, dynIsIface := t.Underlying().(*types.Interface); dynIsIface {
					continue
				}
				x.C.decl(fmt.Sprintf("(assert (= (%s %d) %v))", impl, i+1, types.Implements(t, it)))
			}
		}
		ok = and(not(fmt.Sprintf("(= (i_tag %s) 0)", v.Term)), fmt.Sprintf("(%s (i_tag %s))", impl, v.Term))
		// static knowledge: asserting to a super-interface always succeeds for non-nil values
		if types.AssignableTo(n.X.Type(), at) {
			ok = not(fmt.Sprintf("(= (i_tag %s) 0)", v.Term))
		}
		rv = Val{T: at, Term: ite(ok, v.Term, "nilI")}
	} else {
		id := x.C.typeID(at)
		ok = fmt.Sprintf("(= (i_tag %s) %d)", v.Term, id)
		switch x.C.sortOf(at) {
		case "Int":
			res = fmt.Sprintf("(i_val %s)", v.Term)
		default:
			_, unbox := x.C.boxFuncs(x.C.sortOf(at))
			res = fmt.Sprintf("(%s (i_val %s))", unbox, v.Term)
		}
		rv = Val{T: at, Term: ite(ok, res, x.C.zero(at))}
		if _, isPtr := at.Underlying().(*types.Pointer); isPtr {
			st.assume(fmt.Sprintf("(=> %s (and (>= (i_val %s) 0) (< (i_val %s) %s)))", ok, v.Term, v.Term, st.alloc))
			// a typed pointer stored in an error interface by /repo is never nil (see T-errors)
			if isErrorType(n.X.Type()) {
				st.assume(fmt.Sprintf("(=> %s (and (> (i_val %s) 0) %s))", ok, v.Term, x.errorDynFacts(st, v, at)))
			}
		}
	}
	if n.CommaOk {
		return Val{T: n.Type(), Tup: []Val{rv, {T: tBool, Term: ok}}}
	}
	x.emit(st, "safety:type-assert", "safety", ok, nil, n.Pos())
	st.assume(ok)
	return rv
}

// errorDynFacts: an error whose dynamic type is *HTTPError is its own first *HTTPError.
func (x *Exec) errorDynFacts(st *State, v Val, at types.Type) string {
	if types.Identical(at, x.httpErrPtrType()) {
		return fmt.Sprintf("(= (asHTTP %s) (i_val %s))", v.Term, v.Term)
	}
	return "true"
}

// ---------------------------------------------------------------------------
// closures, ranges over maps

func (x *Exec) doMakeClosure(st *State, fr *Frame, n *ssa.MakeClosure) Val {
	ref := x.newRef(st)
	fn := n.Fn.(*ssa.Function)
	var binds []Val
	for _, b := range n.Bindings {
		binds = append(binds, x.val(st, fr, b))
	}
	x.closures[ref] = &closureInfo{fn: fn, binds: binds}
	x.constClosure(st, fr, n, fn, binds, ref)
	return Val{T: n.Type(), Term: ref}
}

// constClosure: a closure of a literal declared `constfn v` (and proved to return (*v, nil) on every path: its clause
// CONST) is a constant function when the captured variable v is written exactly once in the function that makes the
// closure (before the closure exists) and never by the literal: then *v at every later call is the value it has now.
func (x *Exec) constClosure(st *State, fr *Frame, n *ssa.MakeClosure, fn *ssa.Function, binds []Val, ref string) {
	con := x.Lib.Funcs[funcKey(fn)]
	if con == nil || con.ConstFn == "" {
		return
	}
	okClause := false
	want := "err == nil && val == *" + con.ConstFn
	for _, c := range con.Ensures {
		if c.Label == "CONST" && strings.Join(strings.Fields(c.Text), " ") == want {
			okClause = true
		}
	}
	if !okClause {
		x.bail("constfn %s: the literal needs the clause `ensures CONST: %s`", con.Key, want)
	}
	for i, fv := range fn.FreeVars {
		if fv.Name() != con.ConstFn || i >= len(n.Bindings) {
			continue
		}
		// the literal never stores to the captured variable
		if fv.Referrers() != nil {
			for _, r := range *fv.Referrers() {
				if sto, ok := r.(*ssa.Store); ok && sto.Addr == fv {
					return
				}
				if _, ok := r.(*ssa.UnOp); !ok {
					return // address passed on: give up
				}
			}
		}
		al, ok := n.Bindings[i].(*ssa.Alloc)
		if !ok || al.Referrers() == nil {
			return
		}
		stores := 0
		for _, r := range *al.Referrers() {
			switch r := r.(type) {
			case *ssa.Store:
				if r.Addr != al {
					return // the address itself is stored somewhere
				}
				stores++
				if !r.Block().Dominates(n.Block()) || (r.Block() == n.Block() && !before(r, n)) {
					return
				}
			case *ssa.UnOp, *ssa.DebugRef:
			case *ssa.MakeClosure:
				if r != n {
					return // captured by another closure as well
				}
			default:
				return
			}
		}
		if stores != 1 {
			return
		}
		loc := binds[i].Loc
		if loc == nil {
			loc = x.ptrLoc(st, binds[i])
		}
		if loc == nil || loc.Kind == locNone {
			return
		}
		cur := x.loadLoc(st, loc)
		x.C.decl("(declare-fun pfConst (Int) Bool)")
		x.C.decl("(declare-fun pfRet (Int) Iface)")
		st.assume(fmt.Sprintf("(and (pfConst %s) (= (pfRet %s) %s))", ref, ref, cur.Term))
		x.C.used["closure rule: a closure of "+con.Key+" (proved to return its captured write-once variable) is a constant function"] = true
	}
}

func before(a, b ssa.Instruction) bool {
	for _, in := range a.Block().Instrs {
		if in == a {
			return true
		}
		if in == b {
			return false
		}
	}
	return false
}

type closureInfo struct {
	fn    *ssa.Function
	binds []Val
}

func (x *Exec) doRange(st *State, fr *Frame, n *ssa.Range) Val {
	v := x.val(st, fr, n.X)
	if mt, ok := n.X.Type().Underlying().(*types.Map); ok {
		// ghost set of the keys visited so far (Go: each key present throughout the loop is produced exactly once)
		ks := x.C.sortOf(mt.Key())
		st.heaps[seenKey(fr, n)] = fmt.Sprintf("((as const (Array %s Bool)) false)", ks)
		st.heaps["cnt:"+seenKey(fr, n)] = "0"
	}
	return Val{T: n.Type(), Term: v.Term, Tup: []Val{v}}
}

// loopSeenRange: the map range whose Next sits in the head of this loop (a range-over-map loop), or nil
func loopSeenRange(li *loopInfo) *ssa.Range {
	for _, in := range li.head.Instrs {
		if nx, ok := in.(*ssa.Next); ok {
			if rg, ok := nx.Iter.(*ssa.Range); ok {
				if _, ok := rg.X.Type().Underlying().(*types.Map); ok {
					return rg
				}
			}
		}
	}
	return nil
}

func seenKey(fr *Frame, n *ssa.Range) string { return fmt.Sprintf("seen:%d:%s", fr.id, n.Name()) }

func (x *Exec) doNext(st *State, fr *Frame, n *ssa.Next) Val {
	it := x.val(st, fr, n.Iter)
	tup := n.Type().(*types.Tuple)
	okv := Val{T: tBool, Term: x.newSym(st, "next_ok", "Bool")}
	if n.IsString {
		x.abstr["range over string"] = true
		st.taint = true
		return Val{T: n.Type(), Tup: []Val{okv, x.havocVal(st, "ri", tup.At(1).Type()), x.havocVal(st, "rr", tup.At(2).Type())}}
	}
	m := it.Tup[0]
	mt := m.T.Underlying().(*types.Map)
	k := x.havocVal(st, "mapkey", mt.Key())
	vv := x.mapLookup(st, m, k, false)
	// the key is present when the iteration continues; an empty map never yields a key
	_, dn := x.C.mapHeapNames(mt)
	d := x.heap(st, dn, fmt.Sprintf("(Array Int (Array %s Bool))", x.C.sortOf(mt.Key())))
	st.assume(fmt.Sprintf("(=> %s (select (select %s %s) %s))", okv.Term, d, m.Term, k.Term))
	st.assume(fmt.Sprintf("(=> (= %s 0) (not %s))", m.Term, okv.Term))
	if rg, ok := n.Iter.(*ssa.Range); ok {
		sk := seenKey(fr, rg)
		if seen, ok := st.heaps[sk]; ok {
			ks := x.C.sortOf(mt.Key())
			// a key is produced at most once
			st.assume(fmt.Sprintf("(=> %s (not (select %s %s)))", okv.Term, seen, k.Term))
			// the loop ends when every key has been produced -- only claimed when the loop does not write the map
			if !x.loopWritesMap(fr, n, mt) {
				st.assume(fmt.Sprintf("(=> (not %s) (forall ((qk %s)) (! (=> (select (select %s %s) qk) (select %s qk)) :pattern ((select %s qk)))))", okv.Term, ks, d, m.Term, seen, seen))
			}
			nm := x.C.freshName("seen")
			st.def(fmt.Sprintf("(define-fun %s () (Array %s Bool) (ite %s (store %s %s true) %s))", nm, ks, okv.Term, seen, k.Term, seen))
			st.heaps[sk] = nm
			// the number of keys produced; when the loop ends without having written the map it is the map's length
			cnt := st.heaps["cnt:"+sk]
			if !x.loopWritesMap(fr, n, mt) {
				st.assume(fmt.Sprintf("(=> (not %s) (= %s %s))", okv.Term, cnt, x.mapLen(st, mt, m.Term)))
			}
			cn := x.C.freshName("seencnt")
			st.def(fmt.Sprintf("(define-fun %s () Int (ite %s (+ %s 1) %s))", cn, okv.Term, cnt, cnt))
			st.heaps["cnt:"+sk] = cn
			x.C.used["T-go: a range over a map that the loop does not modify produces every key exactly once"] = true
		}
	}
	kv := k
	if tup.At(1).Type() != nil && !isInvalid(tup.At(1).Type()) {
		kv.T = tup.At(1).Type()
	}
	if !isInvalid(tup.At(2).Type()) {
		vv.T = tup.At(2).Type()
	}
	return Val{T: n.Type(), Tup: []Val{okv, kv, vv}}
}

func isInvalid(t types.Type) bool {
	b, ok := t.(*types.Basic)
	return ok && b.Kind() == types.Invalid
}

// loopWritesMap: does the loop that contains this Next store into (or delete from) a map of the iterated type?
func (x *Exec) loopWritesMap(fr *Frame, n *ssa.Next, mt *types.Map) bool {
	for _, li := range fr.loops {
		if !li.body[n.Block()] && li.head != n.Block() {
			continue
		}
		_, dn := x.C.mapHeapNames(mt)
		ms := x.loopMods(fr, li)
		if ms.all || ms.heaps[dn] {
			return true
		}
	}
	return false
}

// ---------------------------------------------------------------------------
// maps

func (x *Exec) mapSorts(mt *types.Map) (vs, ds string) {
	return fmt.Sprintf("(Array Int (Array %s %s))", x.C.sortOf(mt.Key()), x.C.sortOf(mt.Elem())),
		fmt.Sprintf("(Array Int (Array %s Bool))", x.C.sortOf(mt.Key()))
}

func (x *Exec) mapLookup(st *State, m Val, k Val, commaOk bool) Val {
	mt := m.T.Underlying().(*types.Map)
	vn, dn := x.C.mapHeapNames(mt)
	vs, ds := x.mapSorts(mt)
	vh := x.heap(st, vn, vs)
	dh := x.heap(st, dn, ds)
	kt := k.Term
	if x.C.sortOf(mt.Key()) == "Iface" && x.C.sortOf(k.T) != "Iface" {
		kt = x.makeIface(st, k, mt.Key()).Term
	}
	present := fmt.Sprintf("(select (select %s %s) %s)", dh, m.Term, kt)
	val := Val{T: mt.Elem(), Term: ite(present, fmt.Sprintf("(select (select %s %s) %s)", vh, m.Term, kt), x.C.zero(mt.Elem()))}
	x.assumeLoaded(st, val)
	if x.quiet == 0 {
		// a nil map has no keys
		st.assume(fmt.Sprintf("(=> (= %s 0) (not %s))", m.Term, present))
	}
	if commaOk {
		return Val{Tup: []Val{val, {T: tBool, Term: present}}}
	}
	return val
}

func (x *Exec) mapLen(st *State, mt *types.Map, m string) string {
	_, dn := x.C.mapHeapNames(mt)
	_, ds := x.mapSorts(mt)
	dh := x.heap(st, dn, ds)
	ks := x.C.sortOf(mt.Key())
	f := "card_" + mangle(ks)
	x.C.decl(fmt.Sprintf("(declare-fun %s ((Array %s Bool)) Int)", f, ks))
	x.C.decl(fmt.Sprintf("(assert (forall ((d (Array %s Bool))) (! (>= (%s d) 0) :pattern ((%s d)))))", ks, f, f))
	x.C.decl(fmt.Sprintf("(assert (forall ((d (Array %s Bool)) (k %s)) (! (=> (select d k) (> (%s d) 0)) :pattern ((%s d) (select d k)))))", ks, ks, f, f))
	x.C.decl(fmt.Sprintf("(assert (= (%s ((as const (Array %s Bool)) false)) 0))", f, ks))
	x.C.decl(fmt.Sprintf("(assert (forall ((d (Array %s Bool)) (k %s)) (! (= (%s (store d k true)) (ite (select d k) (%s d) (+ (%s d) 1))) :pattern ((%s (store d k true))))))", ks, ks, f, f, f, f))
	return fmt.Sprintf("(%s (select %s %s))", f, dh, m)
}

func (x *Exec) doLookup(st *State, fr *Frame, n *ssa.Lookup) Val {
	m := x.val(st, fr, n.X)
	k := x.val(st, fr, n.Index)
	if _, ok := n.X.Type().Underlying().(*types.Map); !ok {
		// string index
		x.emit(st, "safety:index", "safety", fmt.Sprintf("(and (<= 0 %s) (< %s (str.len %s)))", k.Term, k.Term, m.Term), nil, n.Pos())
		return Val{T: n.Type(), Term: fmt.Sprintf("(str.to_code (str.at %s %s))", m.Term, k.Term)}
	}
	r := x.mapLookup(st, m, k, n.CommaOk)
	if n.CommaOk {
		r.T = n.Type()
	}
	return r
}

func (x *Exec) doMakeMap(st *State, fr *Frame, n *ssa.MakeMap) Val {
	ref := x.newRef(st)
	mt := n.Type().Underlying().(*types.Map)
	_, dn := x.C.mapHeapNames(mt)
	_, ds := x.mapSorts(mt)
	dh := x.heap(st, dn, ds)
	x.setHeap(st, dn, ds, fmt.Sprintf("(store %s %s ((as const (Array %s Bool)) false))", dh, ref, x.C.sortOf(mt.Key())))
	return Val{T: n.Type(), Term: ref}
}

func (x *Exec) doMapUpdate(st *State, fr *Frame, n *ssa.MapUpdate) {
	m := x.val(st, fr, n.Map)
	k := x.val(st, fr, n.Key)
	v := x.val(st, fr, n.Value)
	mt := n.Map.Type().Underlying().(*types.Map)
	x.emit(st, "safety:nil-map-write", "safety", fmt.Sprintf("(not (= %s 0))", m.Term), nil, n.Pos())
	vn, dn := x.C.mapHeapNames(mt)
	vs, ds := x.mapSorts(mt)
	vh := x.heap(st, vn, vs)
	dh := x.heap(st, dn, ds)
	if top := x.top; top != nil && top.con != nil && top.con.HasAssigns && !assignsAllows(top.con, vn) && !strings.HasPrefix(m.Term, "|ref!") {
		x.emit(st, "frame", "frame", fmt.Sprintf("(>= %s %s)", m.Term, top.allocIn), nil, n.Pos())
	}
	vt, ok := x.termOf(st, v)
	if !ok {
		x.abstr["interior pointer stored in map"] = true
		st.taint = true
		vt = x.newSym(st, "absptr", "Int")
	}
	if x.C.sortOf(mt.Elem()) == "Iface" && x.C.sortOf(v.T) != "Iface" {
		vt = x.makeIface(st, v, mt.Elem()).Term
	}
	x.setHeap(st, vn, vs, fmt.Sprintf("(store %s %s (store (select %s %s) %s %s))", vh, m.Term, vh, m.Term, k.Term, vt))
	x.setHeap(st, dn, ds, fmt.Sprintf("(store %s %s (store (select %s %s) %s true))", dh, m.Term, dh, m.Term, k.Term))
}

// ---------------------------------------------------------------------------
// defers

func (x *Exec) runDefers(st *State, fr *Frame, ds []deferred, k func(st *State)) {
	if len(ds) == 0 {
		k(st)
		return
	}
	d := ds[len(ds)-1]
	rest := ds[:len(ds)-1]
	x.callCommon(st, fr, d.call, d.args, d.fn, d.pos, func(st *State, _ Val) {
		x.runDefers(st, fr, rest, k)
	})
}

func sortedFuncs(m map[string]*ssa.Function) []string {
	var out []string
	for k := range m {
		out = append(out, k)
	}
	sort.Strings(out)
	return out
}
