package main

// Models of standard-library functions (trusted base T-strings, T-quote, T-time, T-errors, T-url).
// Every model used is recorded in Ctx.used so that evidence files list it.

import (
	"fmt"
	"go/constant"
	"go/types"
	"regexp"
	"strconv"
	"strings"

	"golang.org/x/tools/go/ssa"
)

var modelled = map[string]string{
	"strings.Contains": "T-strings", "strings.HasPrefix": "T-strings", "strings.HasSuffix": "T-strings",
	"strings.TrimPrefix": "T-strings", "strings.TrimSuffix": "T-strings", "strings.EqualFold": "T-strings",
	"strings.ToUpper": "T-strings", "strings.ToLower": "T-strings", "strings.TrimSpace": "T-strings",
	"strings.Join": "T-strings", "strings.IndexRune": "T-strings",
	"fmt.Sprintf": "T-strings", "fmt.Errorf": "T-errors", "errors.New": "T-errors",
	"errors.As": "T-errors", "errors.Is": "T-errors", "os.IsExist": "T-errors", "os.IsNotExist": "T-errors",
	"strconv.Unquote": "T-quote", "strconv.Atoi": "T-strings", "strconv.Itoa": "T-strings", "strconv.FormatInt": "T-strings",
	"strconv.ParseInt": "T-strings",
	"http.StatusText": "T-http",
	"time.(Time).After": "T-time", "time.(Time).Before": "T-time", "time.(Time).Equal": "T-time", "time.(Time).IsZero": "T-time",
	"time.(Time).UTC": "T-time", "time.(Time).Location": "T-time", "time.(Time).Format": "T-time", "time.Parse": "T-time",
	"http.ParseTime": "T-time", "time.(Time).UnixNano": "T-time",
	"path.IsAbs": "T-path",
	"strings.SplitN": "T-strings", "strings.Split": "T-strings", "path.Join": "T-path",
	"path.Clean": "T-path", "filepath.Join": "T-path", "filepath.FromSlash": "T-path", "filepath.ToSlash": "T-path", "filepath.Rel": "T-path",
	"url.Parse": "T-url", "url.(*URL).String": "T-url",
}

var mkSliceRe = regexp.MustCompile(`^\(mkSlice (\|[^|]+\||\S+) (\d+) (\d+)\)$`)

// observers of an error chain (errors.Is / errors.As results): forwarded through wrappers, absent from leaves
var chainBools = []string{"isNotExist", "isExist", "isPerm", "isDeadline", "isNotDir"}
var chainPtrs = []string{"asHTTP", "asDavErr", "asPathErr", "asLinkErr"}

// obsForward: every chain observer of e (other than skip) equals that of inner
func obsForward(e, inner string, skip ...string) string {
	sk := map[string]bool{}
	for _, s := range skip {
		sk[s] = true
	}
	var cs []string
	for _, ob := range append(append([]string{}, chainPtrs...), chainBools...) {
		if !sk[ob] {
			cs = append(cs, fmt.Sprintf("(= (%s %s) (%s %s))", ob, e, ob, inner))
		}
	}
	return "(and " + strings.Join(cs, " ") + ")"
}

// obsNone: e is a leaf that matches no sentinel and no typed target (other than skip)
func obsNone(e string, skip ...string) string {
	sk := map[string]bool{}
	for _, s := range skip {
		sk[s] = true
	}
	var cs []string
	for _, ob := range chainPtrs {
		if !sk[ob] {
			cs = append(cs, fmt.Sprintf("(= (%s %s) 0)", ob, e))
		}
	}
	for _, ob := range chainBools {
		if !sk[ob] {
			cs = append(cs, fmt.Sprintf("(not (%s %s))", ob, e))
		}
	}
	return "(and " + strings.Join(cs, " ") + ")"
}

func isModelled(key string) bool { _, ok := modelled[key]; return ok }

func (x *Exec) use(id string) { x.C.used[id] = true }

func (x *Exec) newError(st *State, text string, wrapped string, hp string) Val {
	e := x.newSym(st, "err", "Iface")
	id := x.C.typeID(types.NewNamed(types.NewTypeName(0, nil, "*fmt.wrapError", nil), types.Typ[types.Int], nil))
	st.assume(fmt.Sprintf("(and (= (i_tag %s) %d) (> (i_val %s) 0))", e, id, e))
	if text != "" {
		st.assume(fmt.Sprintf("(= (errText %s) %s)", e, text))
	}
	if wrapped != "" {
		st.assume(obsForward(e, wrapped))
	} else {
		st.assume(obsNone(e))
	}
	st.assume(fmt.Sprintf("(and (not (osIsExist %s)) (not (osIsNotExist %s)))", e, e))
	if hp == "" {
		hp = "false"
	}
	st.assume(fmt.Sprintf("(= (hostPath %s) %s)", e, hp))
	return Val{T: tError, Term: e}
}

// varargs: the element values of a variadic argument built at the call site
func (x *Exec) varargs(st *State, fr *Frame, v ssa.Value) ([]Val, bool) {
	n, ok := staticLen(v)
	if !ok {
		return nil, false
	}
	if n == 0 {
		return nil, true
	}
	sl := v.(*ssa.Slice)
	base := x.val(st, fr, sl.X)
	l := x.ptrLoc(st, base)
	arr := l.Root.Underlying().(*types.Array)
	var out []Val
	for i := int64(0); i < n; i++ {
		out = append(out, x.loadLoc(st, &Loc{Kind: locElem, Ref: l.Ref, Idx: fmt.Sprintf("%d", i), Root: arr.Elem()}))
	}
	return out, true
}

// dynString: string rendering (%v / %s) of an interface-boxed argument, when its dynamic type is
// statically known from the MakeInterface that built it.
type fmtArg struct {
	val Val       // the boxed interface value
	src ssa.Value // the MakeInterface / ChangeInterface instruction if known
}

func (x *Exec) fmtArgs(st *State, fr *Frame, v ssa.Value) ([]fmtArg, bool) {
	n, ok := staticLen(v)
	if !ok {
		return nil, false
	}
	if n == 0 {
		return nil, true
	}
	sl := v.(*ssa.Slice)
	alloc, _ := sl.X.(*ssa.Alloc)
	vals, _ := x.varargs(st, fr, v)
	out := make([]fmtArg, n)
	for i := range out {
		out[i].val = vals[i]
	}
	if alloc != nil {
		for _, r := range *alloc.Referrers() {
			ia, ok := r.(*ssa.IndexAddr)
			if !ok {
				continue
			}
			c, ok := ia.Index.(*ssa.Const)
			if !ok {
				continue
			}
			idx, _ := constant.Int64Val(c.Value)
			for _, rr := range *ia.Referrers() {
				if s, ok := rr.(*ssa.Store); ok && s.Addr == ia {
					out[idx].src = s.Val
				}
			}
		}
	}
	return out, true
}

// render: the text a fmt verb produces for an argument, and whether it may mention a host path
func (x *Exec) render(st *State, fr *Frame, verb byte, a fmtArg) (text string, hp string) {
	var inner ssa.Value
	switch s := a.src.(type) {
	case *ssa.MakeInterface:
		inner = s.X
	case *ssa.ChangeInterface:
		inner = s.X
	}
	if inner != nil {
		iv := x.val(st, fr, inner)
		srt := x.C.sortOf(inner.Type())
		switch {
		case srt == "String" && (verb == 'v' || verb == 's'):
			return iv.Term, fmt.Sprintf("(strHostPath %s)", iv.Term)
		case srt == "String" && verb == 'q':
			x.use("T-quote")
			x.declQuote()
			return fmt.Sprintf("(quote %s)", iv.Term), fmt.Sprintf("(strHostPath %s)", iv.Term)
		case srt == "Int" && (verb == 'v' || verb == 'd'):
			if _, isBasic := inner.Type().Underlying().(*types.Basic); isBasic {
				return fmt.Sprintf("(ite (>= %s 0) (str.from_int %s) (str.++ \"-\" (str.from_int (- %s))))", iv.Term, iv.Term, iv.Term), "false"
			}
		case srt == "Int" && verb == 'x':
			if _, isBasic := inner.Type().Underlying().(*types.Basic); isBasic {
				return fmt.Sprintf("(hexOf %s)", iv.Term), "false"
			}
		case srt == "Iface" && isErrorType(inner.Type()):
			return fmt.Sprintf("(errText %s)", iv.Term), fmt.Sprintf("(hostPath %s)", iv.Term)
		}
	}
	// unknown rendering
	t := x.newSym(st, "fmt", "String")
	hps := x.newSym(st, "fmthp", "Bool")
	return t, hps
}

// sprintf builds the result of a constant-format Sprintf/Errorf.
func (x *Exec) sprintf(st *State, fr *Frame, cc *ssa.CallCommon) (text string, hp string, wrapped string, ok bool) {
	fc, isConst := cc.Args[0].(*ssa.Const)
	if !isConst || fc.Value == nil {
		return "", "", "", false
	}
	format := constant.StringVal(fc.Value)
	args, okArgs := x.fmtArgs(st, fr, cc.Args[1])
	if !okArgs {
		return "", "", "", false
	}
	var parts []string
	var hps []string
	lit := ""
	ai := 0
	flush := func() {
		if lit != "" {
			parts = append(parts, smtString(lit))
			lit = ""
		}
	}
	for i := 0; i < len(format); i++ {
		ch := format[i]
		if ch != '%' {
			lit += string(ch)
			continue
		}
		i++
		if i >= len(format) {
			return "", "", "", false
		}
		verb := format[i]
		if verb == '%' {
			lit += "%"
			continue
		}
		if ai >= len(args) {
			return "", "", "", false
		}
		flush()
		a := args[ai]
		ai++
		v := verb
		if verb == 'w' {
			v = 'v'
			// the wrapped error
			switch s := a.src.(type) {
			case *ssa.ChangeInterface:
				wrapped = x.val(st, fr, s.X).Term
			case *ssa.MakeInterface:
				wrapped = a.val.Term
			default:
				wrapped = a.val.Term
			}
		}
		t, h := x.render(st, fr, v, a)
		parts = append(parts, t)
		hps = append(hps, h)
	}
	flush()
	if ai != len(args) {
		return "", "", "", false
	}
	switch len(parts) {
	case 0:
		text = `""`
	case 1:
		text = parts[0]
	default:
		text = "(str.++ " + strings.Join(parts, " ") + ")"
	}
	return text, or(hps...), wrapped, true
}

func (x *Exec) modelCall(st *State, fr *Frame, key string, cc *ssa.CallCommon, args []Val, in ssa.Instruction) (Val, bool) {
	id, ok := modelled[key]
	if !ok {
		return Val{}, false
	}
	rt := resultType(cc)
	b := func(t string) (Val, bool) { x.use(id); return Val{T: rt, Term: t}, true }
	switch key {
	case "strings.Contains":
		return b(fmt.Sprintf("(str.contains %s %s)", args[0].Term, args[1].Term))
	case "strings.HasPrefix":
		return b(fmt.Sprintf("(str.prefixof %s %s)", args[1].Term, args[0].Term))
	case "strings.HasSuffix":
		return b(fmt.Sprintf("(str.suffixof %s %s)", args[1].Term, args[0].Term))
	case "strings.TrimPrefix":
		s, p := args[0].Term, args[1].Term
		return b(fmt.Sprintf("(ite (str.prefixof %s %s) (str.substr %s (str.len %s) (- (str.len %s) (str.len %s))) %s)", p, s, s, p, s, p, s))
	case "strings.TrimSuffix":
		s, p := args[0].Term, args[1].Term
		return b(fmt.Sprintf("(ite (str.suffixof %s %s) (str.substr %s 0 (- (str.len %s) (str.len %s))) %s)", p, s, s, s, p, s))
	case "strings.EqualFold":
		x.C.decl("(declare-fun foldCase (String) String)")
		return b(fmt.Sprintf("(= (foldCase %s) (foldCase %s))", args[0].Term, args[1].Term))
	case "strings.ToUpper":
		x.C.decl("(declare-fun toUpper (String) String)")
		return b(fmt.Sprintf("(toUpper %s)", args[0].Term))
	case "strings.ToLower":
		x.C.decl("(declare-fun toLower (String) String)")
		return b(fmt.Sprintf("(toLower %s)", args[0].Term))
	case "strings.TrimSpace":
		x.C.decl("(declare-fun trimSpace (String) String)")
		return b(fmt.Sprintf("(trimSpace %s)", args[0].Term))
	case "strings.Join":
		x.C.decl("(declare-fun joinStrings (Slice (Array Int (Array Int String)) String) String)")
		E := x.heap(st, x.C.elemHeapName(tString), x.C.elemHeapSort(tString))
		return b(fmt.Sprintf("(joinStrings %s %s %s)", args[0].Term, E, args[1].Term))
	case "strings.IndexRune":
		x.C.decl("(declare-fun indexRune (String Int) Int)")
		return b(fmt.Sprintf("(indexRune %s %s)", args[0].Term, args[1].Term))
	case "strings.Split":
		// only the number of fields is modelled, and only for the separator "/": len == nsep(s) + 1
		// (nsep is declared with its T-strings facts by /verif/specs/strings.spec); the fields are unconstrained
		sc, ok1 := cc.Args[1].(*ssa.Const)
		if _, ok := x.rawFuncs["nsep"]; !ok || !ok1 || sc.Value == nil || constant.StringVal(sc.Value) != "/" {
			return Val{}, false
		}
		x.use(id)
		x.abstr["fields of strings.Split unconstrained (only their number is modelled)"] = true
		base := x.newRef(st)
		ln := fmt.Sprintf("(+ (nsep %s) 1)", args[0].Term)
		sv := Val{T: rt, Term: fmt.Sprintf("(mkSlice %s %s %s)", base, ln, ln)}
		st.assume(x.typeInv(rt, sv.Term, 1)) // a slice value: 0 <= len <= cap <= MaxInt
		return sv, true
	case "strings.SplitN":
		// exact for a constant non-empty separator and n == 3
		sc, ok1 := cc.Args[1].(*ssa.Const)
		nc, ok2 := cc.Args[2].(*ssa.Const)
		if !ok1 || !ok2 || sc.Value == nil || constant.StringVal(sc.Value) == "" || args[2].Term != "3" {
			return Val{}, false
		}
		x.use(id)
		_ = nc
		s := x.bind(st, "split_s", "String", args[0].Term)
		sep := args[1].Term
		sl := len(constant.StringVal(sc.Value))
		i1 := x.C.freshName("i1")
		st.def(fmt.Sprintf("(define-fun %s () Int (str.indexof %s %s 0))", i1, s, sep))
		r1 := x.C.freshName("r1")
		st.def(fmt.Sprintf("(define-fun %s () String (str.substr %s (+ %s %d) (str.len %s)))", r1, s, i1, sl, s))
		i2 := x.C.freshName("i2")
		st.def(fmt.Sprintf("(define-fun %s () Int (str.indexof %s %s 0))", i2, r1, sep))
		base := x.newRef(st)
		name, srt := x.C.elemHeapName(tString), x.C.elemHeapSort(tString)
		h := x.heap(st, name, srt)
		row := fmt.Sprintf("(store (store (store ((as const (Array Int String)) \"\") 0 (ite (< %s 0) %s (str.substr %s 0 %s))) 1 (ite (< %s 0) %s (str.substr %s 0 %s))) 2 (str.substr %s (+ %s %d) (str.len %s)))",
			i1, s, s, i1, i2, r1, r1, i2, r1, i2, sl, r1)
		x.setHeap(st, name, srt, fmt.Sprintf("(store %s %s %s)", h, base, row))
		ln := fmt.Sprintf("(ite (< %s 0) 1 (ite (< %s 0) 2 3))", i1, i2)
		return Val{T: rt, Term: fmt.Sprintf("(mkSlice %s %s %s)", base, ln, ln)}, true
	case "url.(*URL).String":
		x.declURL(st)
		x.use(id)
		u := x.loadLoc(st, &Loc{Kind: locHeap, Ref: args[0].Term, Root: args[0].T.Underlying().(*types.Pointer).Elem()})
		return Val{T: rt, Term: fmt.Sprintf("(urlString %s)", u.Term)}, true
	case "url.Parse":
		x.declURL(st)
		x.use(id)
		tup := rt.(*types.Tuple)
		ut := tup.At(0).Type().Underlying().(*types.Pointer).Elem()
		ok := fmt.Sprintf("(urlParseOk %s)", args[0].Term)
		e := x.newSym(st, "urlerr", "Iface")
		st.assume(fmt.Sprintf("(= (= %s nilI) %s)", e, ok))
		st.assume(fmt.Sprintf("(=> (not (= %s nilI)) (and (= (asHTTP %s) 0) (= (asDavErr %s) 0) (not (hostPath %s))))", e, e, e, e))
		ref := x.newRef(st)
		x.storeLoc(st, &Loc{Kind: locHeap, Ref: ref, Root: ut}, Val{T: ut, Term: fmt.Sprintf("(urlParseVal %s)", args[0].Term)})
		return Val{T: rt, Tup: []Val{{T: tup.At(0).Type(), Term: ite(ok, ref, "0")}, {T: tError, Term: e}}}, true
	case "path.Join":
		// pjoin is declared (uninterpreted, T-path) by /verif/specs/paths.spec
		if _, ok := x.rawFuncs["pjoin"]; !ok {
			return Val{}, false
		}
		elems, ok := x.varargs(st, fr, cc.Args[0])
		if !ok || len(elems) != 2 {
			return Val{}, false
		}
		return b(fmt.Sprintf("(pjoin %s %s)", elems[0].Term, elems[1].Term))
	case "path.IsAbs":
		return b(fmt.Sprintf("(str.prefixof \"/\" %s)", args[0].Term))
	case "path.Clean":
		// pclean, fjoin, frel are declared (with their T-path axioms) by /verif/specs/os.spec
		if _, ok := x.rawFuncs["pclean"]; !ok {
			return Val{}, false
		}
		return b(fmt.Sprintf("(pclean %s)", args[0].Term))
	case "filepath.FromSlash", "filepath.ToSlash":
		return b(args[0].Term) // Linux path separator
	case "filepath.Join":
		if _, ok := x.rawFuncs["fjoin"]; !ok {
			return Val{}, false
		}
		elems, ok := x.varargs(st, fr, cc.Args[0])
		if !ok || len(elems) != 2 {
			return Val{}, false
		}
		return b(fmt.Sprintf("(fjoin %s %s)", elems[0].Term, elems[1].Term))
	case "filepath.Rel":
		if _, ok := x.rawFuncs["frel"]; !ok {
			return Val{}, false
		}
		x.use(id)
		okT := fmt.Sprintf("(frelOk %s %s)", args[0].Term, args[1].Term)
		e := x.newSym(st, "relerr", "Iface")
		st.assume(fmt.Sprintf("(= (= %s nilI) %s)", e, okT))
		st.assume(fmt.Sprintf("(=> (not (= %s nilI)) (and %s (not (hostPath %s))))", e, obsNone(e), e))
		return Val{T: rt, Tup: []Val{{T: tString, Term: ite(okT, fmt.Sprintf("(frel %s %s)", args[0].Term, args[1].Term), `""`)}, {T: tError, Term: e}}}, true
	case "http.StatusText":
		x.C.decl("(declare-fun statusText (Int) String)")
		return b(fmt.Sprintf("(statusText %s)", args[0].Term))
	case "fmt.Sprintf":
		x.declFmt()
		text, hp, _, ok := x.sprintf(st, fr, cc)
		if !ok {
			return Val{}, false
		}
		x.use(id)
		t := x.bind(st, "sprintf", "String", text)
		if hp != "false" {
			st.assume(fmt.Sprintf("(= (strHostPath %s) %s)", t, hp))
		}
		return Val{T: rt, Term: t}, true
	case "fmt.Errorf":
		x.declFmt()
		text, hp, wrapped, ok := x.sprintf(st, fr, cc)
		if !ok {
			// format or arguments not statically known (e.g. inside HTTPErrorf): the text can only mention the
			// host path if the format or one of the arguments does
			x.use(id)
			hpSym := x.newSym(st, "hp", "Bool")
			E := x.heap(st, x.C.elemHeapName(types.NewInterfaceType(nil, nil)), x.C.elemHeapSort(types.NewInterfaceType(nil, nil)))
			fmtHP := fmt.Sprintf("(strHostPath %s)", args[0].Term)
			if strings.HasPrefix(args[0].Term, "\"") {
				fmtHP = "false" // a string constant of the program
			}
			elemsHP := fmt.Sprintf("(exists ((i Int)) (and (<= 0 i) (< i (s_len %s)) (hostPath (select (select %s (s_base %s)) i))))", args[1].Term, E, args[1].Term)
			if m := mkSliceRe.FindStringSubmatch(args[1].Term); m != nil {
				// a variadic argument list of statically known length: expand
				n, _ := strconv.Atoi(m[2])
				var ds []string
				for i := 0; i < n && n <= 8; i++ {
					ds = append(ds, fmt.Sprintf("(hostPath (select (select %s %s) %d))", E, m[1], i))
				}
				if n <= 8 {
					elemsHP = or(ds...)
				}
			} else if args[1].Term == "nilS" {
				elemsHP = "false"
			}
			st.assume(fmt.Sprintf("(=> %s (or %s %s))", hpSym, fmtHP, elemsHP))
			e := x.newSym(st, "err", "Iface")
			st.assume(fmt.Sprintf("(and (not (= %s nilI)) (> (i_tag %s) 0) (= (hostPath %s) %s) (= (asHTTP %s) 0) (not (osIsExist %s)) (not (osIsNotExist %s)))", e, e, e, hpSym, e, e, e))
			if strings.HasPrefix(args[0].Term, "\"") && !strings.Contains(args[0].Term, "%w") {
				st.assume(obsNone(e)) // a constant format without %w wraps nothing
			}
			return Val{T: tError, Term: e}, true
		}
		x.use(id)
		return x.newError(st, text, wrapped, hp), true
	case "errors.New":
		x.use(id)
		return x.newError(st, args[0].Term, "", "false"), true
	case "errors.As":
		return x.modelErrorsAs(st, fr, cc, args, in)
	case "errors.Is":
		tgt := args[1].Term
		ob := ""
		switch {
		case strings.Contains(tgt, "ErrNotExist"):
			ob = "isNotExist"
		case strings.Contains(tgt, "ErrExist"):
			ob = "isExist"
		case strings.Contains(tgt, "ErrPermission"):
			ob = "isPerm"
		case strings.Contains(tgt, "ErrDeadlineExceeded"):
			ob = "isDeadline"
		case isErrnoConst(cc.Args[1], 20):
			ob = "isNotDir" // syscall.ENOTDIR
		}
		if ob == "" {
			return Val{}, false
		}
		return b(fmt.Sprintf("(%s %s)", ob, args[0].Term))
	case "os.IsExist":
		return b(fmt.Sprintf("(osIsExist %s)", args[0].Term))
	case "os.IsNotExist":
		return b(fmt.Sprintf("(osIsNotExist %s)", args[0].Term))
	case "strconv.Unquote":
		x.declQuote()
		x.use(id)
		s := args[0].Term
		ok := fmt.Sprintf("(unquoteOk %s)", s)
		e := x.newSym(st, "uqerr", "Iface")
		st.assume(fmt.Sprintf("(= (= %s nilI) %s)", e, ok))
		st.assume(fmt.Sprintf("(=> (not (= %s nilI)) (and %s (not (hostPath %s)) (not (osIsExist %s)) (not (osIsNotExist %s))))", e, obsNone(e), e, e, e))
		return Val{T: rt, Tup: []Val{{T: tString, Term: ite(ok, fmt.Sprintf("(unquoteVal %s)", s), `""`)}, {T: tError, Term: e}}}, true
	case "strconv.Itoa", "strconv.FormatInt":
		x.use(id)
		if key == "strconv.FormatInt" && args[1].Term != "10" {
			return Val{}, false
		}
		n := args[0].Term
		return Val{T: rt, Term: fmt.Sprintf("(ite (>= %s 0) (str.from_int %s) (str.++ \"-\" (str.from_int (- %s))))", n, n, n)}, true
	case "strconv.Atoi", "strconv.ParseInt":
		if key == "strconv.ParseInt" && args[1].Term != "10" {
			return Val{}, false
		}
		x.use(id)
		x.declAtoi()
		s := args[0].Term
		e := x.newSym(st, "atoierr", "Iface")
		st.assume(fmt.Sprintf("(= (= %s nilI) (atoiOk %s))", e, s))
		st.assume(fmt.Sprintf("(=> (not (= %s nilI)) (and (= (asHTTP %s) 0) (= (asDavErr %s) 0) (not (hostPath %s))))", e, e, e, e))
		tup := rt.(*types.Tuple)
		return Val{T: rt, Tup: []Val{{T: tup.At(0).Type(), Term: fmt.Sprintf("(ite (atoiOk %s) (atoiVal %s) 0)", s, s)}, {T: tError, Term: e}}}, true
	case "time.(Time).After":
		return b(fmt.Sprintf("(> (t_ns %s) (t_ns %s))", args[0].Term, args[1].Term))
	case "time.(Time).Before":
		return b(fmt.Sprintf("(< (t_ns %s) (t_ns %s))", args[0].Term, args[1].Term))
	case "time.(Time).Equal":
		return b(fmt.Sprintf("(= (t_ns %s) (t_ns %s))", args[0].Term, args[1].Term))
	case "time.(Time).IsZero":
		return b(fmt.Sprintf("(= (t_ns %s) Z0)", args[0].Term))
	case "time.(Time).UTC":
		return b(fmt.Sprintf("(mkTime (t_ns %s) 0)", args[0].Term))
	case "time.(Time).Location":
		// *time.Location: modelled by the location id (never nil)
		return b(fmt.Sprintf("(+ 1 (t_loc %s))", args[0].Term))
	case "time.(Time).UnixNano":
		return b(fmt.Sprintf("(t_ns %s)", args[0].Term))
	case "time.(Time).Format":
		x.declTime()
		return b(fmt.Sprintf("(timeFormat %s (+ (t_ns %s) (* 1000000000 (zoneOffset (t_loc %s) (t_ns %s)))))", args[1].Term, args[0].Term, args[0].Term, args[0].Term))
	case "time.Parse", "http.ParseTime":
		x.declTime()
		x.use(id)
		var layout, s string
		if key == "time.Parse" {
			layout, s = args[0].Term, args[1].Term
		} else {
			layout, s = smtString("Mon, 02 Jan 2006 15:04:05 GMT"), args[0].Term
		}
		e := x.newSym(st, "perr", "Iface")
		st.assume(fmt.Sprintf("(= (= %s nilI) (timeParseOk %s %s))", e, layout, s))
		st.assume(fmt.Sprintf("(=> (not (= %s nilI)) (and (= (asHTTP %s) 0) (= (asDavErr %s) 0) (not (hostPath %s))))", e, e, e, e))
		tup := rt.(*types.Tuple)
		return Val{T: rt, Tup: []Val{{T: tup.At(0).Type(), Term: fmt.Sprintf("(ite (timeParseOk %s %s) (mkTime (timeParseNs %s %s) 0) zeroTime)", layout, s, layout, s)}, {T: tError, Term: e}}}, true
	}
	return Val{}, false
}

func (x *Exec) declAtoi() {
	x.C.decl("(declare-fun atoiOk (String) Bool)")
	x.C.decl("(declare-fun atoiVal (String) Int)")
	// decimal digit strings parse to their value; the empty string does not parse; other texts unconstrained
	x.C.decl("(assert (forall ((s String)) (! (=> (>= (str.to_int s) 0) (and (atoiOk s) (= (atoiVal s) (str.to_int s)))) :pattern ((atoiOk s)))))")
	x.C.decl("(assert (not (atoiOk \"\")))")
}

func (x *Exec) declFmt() {
	x.C.decl("(declare-fun strHostPath (String) Bool)")
	x.C.decl("(assert (not (strHostPath \"\")))")
	x.C.decl("(declare-fun hexOf (Int) String)")
	x.C.decl("(assert (forall ((n Int)) (! (>= (str.len (hexOf n)) 1) :pattern ((hexOf n)))))")
	// string constants of the program do not mention the host path
}

func (x *Exec) declQuote() {
	// T-quote: strconv.Quote / %q and strconv.Unquote
	x.C.decl("(declare-fun quote (String) String)")
	x.C.decl("(declare-fun unquoteOk (String) Bool)")
	x.C.decl("(declare-fun unquoteVal (String) String)")
	x.C.decl("(assert (forall ((s String)) (! (and (unquoteOk (quote s)) (= (unquoteVal (quote s)) s)) :pattern ((quote s)))))")
	x.C.decl("(assert (forall ((s String)) (! (=> (unquoteOk s) (and (>= (str.len s) 2) (= (str.at s 0) (str.at s (- (str.len s) 1))) (or (= (str.at s 0) \"\\u{22}\") (= (str.at s 0) \"'\") (= (str.at s 0) \"`\")))) :pattern ((unquoteOk s)))))")
	x.C.decl("(assert (forall ((s String)) (! (and (= (str.at (quote s) 0) \"\\u{22}\") (>= (str.len (quote s)) 2)) :pattern ((quote s)))))")
}

// declURL: T-url. urlString renders a URL value, urlParse reads one back. The only law assumed:
// a URL consisting of just an absolute path whose first segment is non-empty survives the round trip.
func (x *Exec) urlType() types.Type {
	for _, p := range x.P.Pkgs {
		for _, imp := range p.Types.Imports() {
			if imp.Path() == "net/url" {
				return imp.Scope().Lookup("URL").Type()
			}
		}
	}
	x.bail("net/url not imported")
	return nil
}

func (x *Exec) declURL(st *State) {
	ut := x.urlType()
	s := x.C.sortOf(ut)
	x.C.decl(fmt.Sprintf("(declare-fun urlString (%s) String)", s))
	x.C.decl("(declare-fun urlParseOk (String) Bool)")
	x.C.decl(fmt.Sprintf("(declare-fun urlParseVal (String) %s)", s))
	u := ut.Underlying().(*types.Struct)
	var args []string
	for i := 0; i < u.NumFields(); i++ {
		if u.Field(i).Name() == "Path" {
			args = append(args, "p")
		} else {
			args = append(args, x.C.zero(u.Field(i).Type()))
		}
	}
	pu := x.C.mkStruct(ut, args)
	x.C.decl(fmt.Sprintf("(assert (forall ((p String)) (! (=> (and (str.prefixof \"/\" p) (not (str.prefixof \"//\" p))) (and (urlParseOk (urlString %s)) (= (%s (urlParseVal (urlString %s))) p))) :pattern ((urlString %s)))))", pu, x.C.selName(ut, fieldIndex(ut, "Path")), pu, pu))
	// T-url for URLs with scheme / user / host as well: a rooted path (no Opaque part, no RawPath / query / fragment
	// set) survives String and Parse
	sel := func(f string) string { return x.C.selName(ut, fieldIndex(ut, f)) }
	x.C.decl(fmt.Sprintf("(assert (forall ((u %s)) (! (=> (and (str.prefixof \"/\" (%s u)) (not (str.prefixof \"//\" (%s u))) (= (%s u) \"\") (= (%s u) \"\") (= (%s u) \"\") (= (%s u) \"\") (not (%s u))) (and (urlParseOk (urlString u)) (= (%s (urlParseVal (urlString u))) (%s u)))) :pattern ((urlString u)))))",
		s, sel("Path"), sel("Path"), sel("Opaque"), sel("RawPath"), sel("RawQuery"), sel("Fragment"), sel("ForceQuery"), sel("Path"), sel("Path")))
}

func (x *Exec) declTime() {
	// T-time. timeFormat(layout, wallNs): text of the wall clock reading wallNs (nanoseconds, zone offset
	// already applied). Both layouts used in /repo print a literal zone designator (GMT / Z) and whole
	// seconds, so parsing the text yields the wall clock reading truncated to the second, as UTC.
	x.C.decl("(declare-fun timeFormat (String Int) String)")
	x.C.decl("(declare-fun timeParseOk (String String) Bool)")
	x.C.decl("(declare-fun timeParseNs (String String) Int)")
	x.C.decl("(declare-fun zoneOffset (Int Int) Int)")
	x.C.decl("(assert (forall ((t Int)) (! (= (zoneOffset 0 t) 0) :pattern ((zoneOffset 0 t)))))")
	x.C.decl("(define-fun truncSec ((n Int)) Int (* 1000000000 (div n 1000000000)))")
	for _, l := range []string{"Mon, 02 Jan 2006 15:04:05 GMT", "20060102T150405Z"} {
		ls := smtString(l)
		x.C.decl(fmt.Sprintf("(assert (forall ((w Int)) (! (and (timeParseOk %s (timeFormat %s w)) (= (timeParseNs %s (timeFormat %s w)) (truncSec w))) :pattern ((timeFormat %s w)))))", ls, ls, ls, ls, ls))
	}
}

func (x *Exec) modelErrorsAs(st *State, fr *Frame, cc *ssa.CallCommon, args []Val, in ssa.Instruction) (Val, bool) {
	// target: interface value boxing a **T
	mi, ok := cc.Args[1].(*ssa.MakeInterface)
	if !ok {
		return Val{}, false
	}
	pp, ok := mi.X.Type().Underlying().(*types.Pointer)
	if !ok {
		return Val{}, false
	}
	tp, ok := pp.Elem().Underlying().(*types.Pointer)
	if !ok {
		return Val{}, false
	}
	named, ok := tp.Elem().(*types.Named)
	if !ok || named.Obj().Pkg() == nil {
		return Val{}, false
	}
	ob := ""
	switch named.Obj().Pkg().Path() + "." + named.Obj().Name() {
	case modPath + "/internal.HTTPError":
		ob = "asHTTP"
	case modPath + "/internal.Error":
		ob = "asDavErr"
	case "io/fs.PathError":
		ob = "asPathErr"
	case "os.LinkError":
		ob = "asLinkErr"
	}
	if ob == "" {
		return Val{}, false
	}
	x.use("T-errors")
	r := fmt.Sprintf("(%s %s)", ob, args[0].Term)
	st.assume(fmt.Sprintf("(and (>= %s 0) (< %s %s))", r, r, st.alloc))
	tv := x.val(st, fr, mi.X)
	l := x.ptrLoc(st, tv)
	// errors.As leaves the target untouched when it fails
	cur := x.loadLoc(st, l)
	x.storeLoc(st, l, Val{T: pp.Elem(), Term: ite(fmt.Sprintf("(not (= %s 0))", r), r, cur.Term)})
	return Val{T: tBool, Term: fmt.Sprintf("(not (= %s 0))", r)}, true
}

// isErrnoConst: v boxes the constant syscall.Errno(n)
func isErrnoConst(v ssa.Value, n int64) bool {
	mi, ok := v.(*ssa.MakeInterface)
	if !ok {
		return false
	}
	c, ok := mi.X.(*ssa.Const)
	if !ok || c.Value == nil {
		return false
	}
	named, ok := c.Type().(*types.Named)
	if !ok || named.Obj().Pkg() == nil || named.Obj().Pkg().Path() != "syscall" || named.Obj().Name() != "Errno" {
		return false
	}
	return c.Int64() == n
}

// modelInvoke: interface method calls with a fixed meaning
func (x *Exec) modelInvoke(st *State, fr *Frame, key string, cc *ssa.CallCommon, recv Val, args []Val, in ssa.Instruction) (Val, bool) {
	switch key {
	case "error.Error":
		x.use("T-errors")
		// taint abstraction: the text mentions the host path iff the error is marked as carrying it
		x.declFmt()
		st.assume(fmt.Sprintf("(= (strHostPath (errText %s)) (hostPath %s))", recv.Term, recv.Term))
		return Val{T: tString, Term: fmt.Sprintf("(errText %s)", recv.Term)}, true
	}
	return Val{}, false
}
