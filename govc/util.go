package main

import "go/types"

func typesNewPointer(t types.Type) types.Type { return types.NewPointer(t) }
