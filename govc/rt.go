package main

// Runtime contract evaluation ("rt"): compiles requires/ensures clauses and spec functions to Go and
// evaluates them against the real code on pseudo-random small inputs, through `go test -overlay`
// (nothing is written into /repo). Used (a) to look for a concrete failing input when a proof
// obligation fails (replay), (b) as the bounded stand-in when a contract no longer attaches,
// (c) in the thorough tier as a cross-check of the SMT model of Go. Always labelled bounded.

import (
	_ "embed"
	"encoding/json"
	"fmt"
	"go/types"
	"os"
	"os/exec"
	"path/filepath"
	"regexp"
	"sort"
	"strconv"
	"strings"

	"golang.org/x/tools/go/ssa"
)

//go:embed rt_helpers.go.txt
var rtHelpers string

type rtUnsupported struct{ why string }

type rtScope struct {
	names map[string]string     // contract name -> Go expression
	old   map[string]string     // contract name -> Go expression of the pre-state snapshot
	types map[string]types.Type // contract name -> type (for type inference)
	bound map[string]types.Type
	inOld bool
}

func (s *rtScope) child() *rtScope {
	n := &rtScope{names: s.names, old: s.old, types: s.types, bound: map[string]types.Type{}, inOld: s.inOld}
	for k, v := range s.bound {
		n.bound[k] = v
	}
	return n
}

type rtCompiler struct {
	x        *Exec
	pkg      string
	tpkg     *types.Package
	imports  map[string]string // import path -> local name
	specs    map[string]bool
	specCode map[string]string
	pool     map[string]bool
	bindings map[string]bool // rtS_ functions provided by the bindings file
}

func (c *rtCompiler) fail(format string, a ...interface{}) {
	panic(rtUnsupported{fmt.Sprintf(format, a...)})
}

func (c *rtCompiler) qualifier(p *types.Package) string {
	if p == c.tpkg {
		return ""
	}
	c.imports[p.Path()] = p.Name()
	return p.Name()
}

func (c *rtCompiler) typeStr(t types.Type) string {
	return types.TypeString(t, c.qualifier)
}

// typeOf infers the Go type of a contract expression with the SMT evaluator.
func (c *rtCompiler) typeOf(ex Expr, sc *rtScope) types.Type {
	st := newState()
	st.alloc = "0"
	env := &Env{x: c.x, st: st, old: st, names: map[string]Val{}, bound: map[string]Val{}, pkg: c.pkg, frame: &Frame{allocIn: "0", id: -7}}
	for n, t := range sc.types {
		env.names[n] = Val{T: t, Term: "x"}
	}
	for n, t := range sc.bound {
		env.bound[n] = Val{T: t, Term: "x"}
	}
	var out types.Type
	func() {
		defer func() {
			if r := recover(); r != nil {
				if _, ok := r.(evalError); ok {
					return
				}
				if _, ok := r.(engineError); ok {
					return
				}
				panic(r)
			}
		}()
		c.x.quiet++
		defer func() { c.x.quiet-- }()
		v := env.eval(ex)
		out = v.T
	}()
	if out == nil {
		c.fail("cannot infer a Go type")
	}
	return out
}

func isBasicComparable(t types.Type) bool {
	if t == nil {
		return false
	}
	_, ok := t.Underlying().(*types.Basic)
	return ok
}

func (c *rtCompiler) compile(ex Expr, sc *rtScope) string {
	switch n := ex.(type) {
	case *EInt:
		return n.V
	case *EStr:
		c.pool[n.V] = true
		return strconv.Quote(n.V)
	case *EBool:
		if n.V {
			return "true"
		}
		return "false"
	case *ENil:
		return "nil"
	case *EIter:
		c.fail("loop counters are not available at run time")
	case *EIdent:
		if _, ok := sc.bound[n.Name]; ok {
			return n.Name
		}
		if sc.inOld {
			if g, ok := sc.old[n.Name]; ok {
				return g
			}
		}
		if g, ok := sc.names[n.Name]; ok {
			return g
		}
		if _, ok := c.x.Lib.Ghosts[n.Name]; ok {
			c.fail("ghost state %s", n.Name)
		}
		if sf, ok := c.x.Lib.Specs[n.Name]; ok && len(sf.Params) == 0 {
			return c.specCall(sf, nil)
		}
		if _, ok := c.x.evalGoConst(c.pkg, n.Name); ok {
			return n.Name
		}
		if tv, ok := c.x.goEval(c.pkg, n.Name); ok && !tv.IsType() {
			return n.Name
		}
		c.fail("unknown name %s", n.Name)
	case *EOld:
		s2 := sc.child()
		s2.inOld = true
		return c.compile(n.X, s2)
	case *EUn:
		switch n.Op {
		case "!":
			return "!(" + c.compile(n.X, sc) + ")"
		case "-":
			return "-(" + c.compile(n.X, sc) + ")"
		case "*":
			return "*(" + c.compile(n.X, sc) + ")"
		}
	case *EBin:
		return c.compileBin(n, sc)
	case *ECond:
		var t types.Type
		if _, isNil := n.A.(*ENil); isNil {
			t = c.typeOf(n.B, sc)
		} else {
			t = c.typeOf(n.A, sc)
		}
		return fmt.Sprintf("func() %s { if %s { return %s }; return %s }()", c.typeStr(t), c.compile(n.C, sc), c.compile(n.A, sc), c.compile(n.B, sc))
	case *ELet:
		vt := c.typeOf(n.V, sc)
		s2 := sc.child()
		s2.bound[n.Name] = vt
		bt := c.typeOf(n.Body, s2)
		return fmt.Sprintf("func() %s { var %s %s = %s; _ = %s; return %s }()", c.typeStr(bt), n.Name, c.typeStr(vt), c.compile(n.V, sc), n.Name, c.compile(n.Body, s2))
	case *EQuant:
		return c.compileQuant(n, sc)
	case *ESel:
		if id, ok := n.X.(*EIdent); ok {
			_, b := sc.bound[id.Name]
			_, nm := sc.names[id.Name]
			if !b && !nm {
				// package-qualified constant or variable
				if tv, ok := c.x.goEval(c.pkg, id.Name+"."+n.Name); ok && !tv.IsType() {
					c.importByName(id.Name)
					return id.Name + "." + n.Name
				}
			}
		}
		xt := c.typeOf(n.X, sc)
		if isTimeType(xt) && n.Name == "ns" {
			return "rtNs(" + c.timeExpr(n.X, sc) + ")"
		}
		if _, err := strconv.Atoi(n.Name); err == nil {
			c.fail("tuple selector")
		}
		return "(" + c.compile(n.X, sc) + ")." + n.Name
	case *EIdx:
		xt := c.typeOf(n.X, sc)
		switch xt.Underlying().(type) {
		case *types.Map:
			return "(" + c.compile(n.X, sc) + ")[" + c.compile(n.I, sc) + "]"
		case *types.Slice:
			if isByteSlice(xt) {
				return "(" + c.compile(n.X, sc) + ")[" + c.compile(n.I, sc) + "]"
			}
			return "rtIdx(" + c.compile(n.X, sc) + ", " + c.compile(n.I, sc) + ")"
		}
		return "(" + c.compile(n.X, sc) + ")[" + c.compile(n.I, sc) + "]"
	case *ECall:
		return c.compileCall(n, sc)
	}
	c.fail("unsupported expression %T", ex)
	return ""
}

// timeExpr compiles an expression of a time type (time.Time or a named type over it) to a time.Time
func (c *rtCompiler) timeExpr(ex Expr, sc *rtScope) string {
	c.imports["time"] = "time"
	return "time.Time(" + c.compile(ex, sc) + ")"
}

func (c *rtCompiler) importByName(name string) {
	for _, p := range c.x.P.Pkgs {
		if shortPkg(p.PkgPath) != c.pkg {
			continue
		}
		for _, imp := range p.Types.Imports() {
			if imp.Name() == name {
				c.imports[imp.Path()] = name
			}
		}
	}
}

func (c *rtCompiler) compileBin(n *EBin, sc *rtScope) string {
	switch n.Op {
	case "&&", "||":
		return "(" + c.compile(n.X, sc) + " " + n.Op + " " + c.compile(n.Y, sc) + ")"
	case "==>":
		return "(!(" + c.compile(n.X, sc) + ") || (" + c.compile(n.Y, sc) + "))"
	case "<==>":
		return "((" + c.compile(n.X, sc) + ") == (" + c.compile(n.Y, sc) + "))"
	case "==", "!=":
		neg := ""
		if n.Op == "!=" {
			neg = "!"
		}
		if _, ok := n.Y.(*ENil); ok {
			return neg + "rtIsNil(" + c.compile(n.X, sc) + ")"
		}
		if _, ok := n.X.(*ENil); ok {
			return neg + "rtIsNil(" + c.compile(n.Y, sc) + ")"
		}
		xt := c.typeOf(n.X, sc)
		yt := c.typeOf(n.Y, sc)
		if isBasicComparable(xt) && isBasicComparable(yt) {
			a, b := c.compile(n.X, sc), c.compile(n.Y, sc)
			// mixed named / unnamed basic types: convert through the underlying type
			if !types.Identical(xt, yt) {
				ut := c.typeStr(xt.Underlying())
				if _, isLit := n.Y.(*EStr); !isLit {
					if _, isLit := n.Y.(*EInt); !isLit {
						b = ut + "(" + b + ")"
					}
				}
				if _, isLit := n.X.(*EStr); !isLit {
					if _, isLit := n.X.(*EInt); !isLit {
						a = ut + "(" + a + ")"
					}
				}
			}
			return "(" + a + " " + n.Op + " " + b + ")"
		}
		return neg + "rtEq(" + c.compile(n.X, sc) + ", " + c.compile(n.Y, sc) + ")"
	case "<", "<=", ">", ">=", "+", "-", "*", "/", "%":
		a, b := c.compile(n.X, sc), c.compile(n.Y, sc)
		xt := c.typeOf(n.X, sc)
		yt := c.typeOf(n.Y, sc)
		if !types.Identical(xt, yt) && isBasicComparable(xt) && isBasicComparable(yt) {
			if _, isLit := n.Y.(*EInt); !isLit {
				if _, isLitX := n.X.(*EInt); !isLitX {
					if _, isS := n.Y.(*EStr); !isS {
						if _, isS := n.X.(*EStr); !isS {
							b = c.typeStr(xt) + "(" + b + ")"
						}
					}
				}
			}
		}
		return "(" + a + " " + n.Op + " " + b + ")"
	}
	c.fail("operator %s", n.Op)
	return ""
}

// bounds of an integer quantifier variable from the conjuncts of its guard
func (c *rtCompiler) quantBounds(v string, guard Expr) (lo, hi Expr, hiIncl bool) {
	var walk func(e Expr)
	walk = func(e Expr) {
		if call, ok := e.(*ECall); ok {
			// see through non-recursive spec functions used as range guards (inCal(cal, j))
			if sf, ok := c.x.Lib.Specs[call.Fun]; ok && sf.Body != nil && !c.x.specRecursive(sf) && len(sf.Params) == len(call.Args) {
				m := map[string]Expr{}
				for i, p := range sf.Params {
					m[p.Name] = call.Args[i]
				}
				walk(substExpr(sf.Body, m))
			}
			return
		}
		b, ok := e.(*EBin)
		if !ok {
			return
		}
		if b.Op == "&&" {
			walk(b.X)
			walk(b.Y)
			return
		}
		isV := func(e Expr) bool { id, ok := e.(*EIdent); return ok && id.Name == v }
		switch b.Op {
		case "<=":
			if isV(b.Y) && lo == nil {
				lo = b.X
			} else if isV(b.X) && hi == nil {
				hi, hiIncl = b.Y, true
			}
		case "<":
			if isV(b.X) && hi == nil {
				hi = b.Y
			}
		case ">=":
			if isV(b.X) && lo == nil {
				lo = b.Y
			}
		}
	}
	walk(guard)
	return
}

func (c *rtCompiler) compileQuant(n *EQuant, sc *rtScope) string {
	// split the body into guard and conclusion
	var guard Expr
	body := n.Body
	if n.Forall {
		if b, ok := body.(*EBin); ok && b.Op == "==>" {
			guard = b.X
		}
	} else {
		guard = body
	}
	s2 := sc.child()
	code := ""
	for i := len(n.Vars) - 1; i >= 0; i-- {
		qv := n.Vars[i]
		t, gs := c.x.resolveType(c.pkg, qv.Type)
		if gs != "" {
			c.fail("quantifier over ghost sort")
		}
		s2.bound[qv.Name] = t
	}
	inner := c.compile(body, s2)
	code = inner
	for i := len(n.Vars) - 1; i >= 0; i-- {
		qv := n.Vars[i]
		t := s2.bound[qv.Name]
		b, ok := t.Underlying().(*types.Basic)
		if !ok {
			c.fail("quantifier over %s", t)
		}
		fn := "rtExists"
		if n.Forall {
			fn = "rtForall"
		}
		switch {
		case b.Info()&types.IsInteger != 0:
			lo, hi, incl := c.quantBounds(qv.Name, guard)
			if lo == nil || hi == nil {
				c.fail("no bounds for quantified %s", qv.Name)
			}
			// bounds may only mention outer variables
			sOuter := sc.child()
			for j := 0; j < i; j++ {
				sOuter.bound[n.Vars[j].Name] = s2.bound[n.Vars[j].Name]
			}
			hic := c.compile(hi, sOuter)
			if incl {
				hic = "(" + hic + ")+1"
			}
			code = fmt.Sprintf("%s(%s, %s, func(%s int) bool { return %s })", fn, c.compile(lo, sOuter), hic, qv.Name, code)
		case b.Info()&types.IsString != 0:
			code = fmt.Sprintf("%sStr(rtStrPool, func(%s string) bool { return %s })", fn, qv.Name, code)
		default:
			c.fail("quantifier over %s", t)
		}
	}
	return code
}

func (c *rtCompiler) specCall(sf *SpecFunc, args []string) string {
	name := "rtS_" + sf.Name
	if c.bindings[name] {
		return name + "(" + strings.Join(args, ", ") + ")"
	}
	if sf.Body == nil {
		c.fail("uninterpreted spec function %s has no run-time binding", sf.Name)
	} else if !c.specs[sf.Name] {
		c.specs[sf.Name] = true
		// compile the definition
		sc := &rtScope{names: map[string]string{}, old: map[string]string{}, types: map[string]types.Type{}, bound: map[string]types.Type{}}
		var ps []string
		saved := c.pkg
		savedT := c.tpkg
		c.pkgSwitch(sf.Pkg)
		for _, p := range sf.Params {
			t, gs := c.x.resolveType(sf.Pkg, p.Type)
			if gs != "" {
				c.pkgSwitch2(saved, savedT)
				c.fail("spec %s has a ghost-sorted parameter", sf.Name)
			}
			sc.bound[p.Name] = t
			ps = append(ps, p.Name+" "+c.typeStr(t))
		}
		rt, gs := c.x.resolveType(sf.Pkg, sf.Result)
		if gs != "" {
			c.pkgSwitch2(saved, savedT)
			c.fail("spec %s has a ghost-sorted result", sf.Name)
		}
		c.specCode[sf.Name] = "" // placeholder for recursion
		var body string
		func() {
			defer func() {
				if r := recover(); r != nil {
					c.pkgSwitch2(saved, savedT)
					delete(c.specs, sf.Name)
					delete(c.specCode, sf.Name)
					panic(r)
				}
			}()
			body = c.compile(sf.Body, sc)
		}()
		var unused []string
		for _, p := range sf.Params {
			unused = append(unused, "_ = "+p.Name)
		}
		c.specCode[sf.Name] = fmt.Sprintf("func %s(%s) %s { %s; return %s }\n", name, strings.Join(ps, ", "), c.typeStr(rt), strings.Join(unused, "; "), body)
		c.pkgSwitch2(saved, savedT)
	}
	return name + "(" + strings.Join(args, ", ") + ")"
}

func (c *rtCompiler) pkgSwitch(short string) {
	if short == "" || short == c.pkg {
		return
	}
	// spec functions of another package cannot be compiled into this package's test file
	if short != c.pkg {
		c.fail("spec function of package %s used from %s", short, c.pkg)
	}
}

func (c *rtCompiler) pkgSwitch2(short string, t *types.Package) { c.pkg, c.tpkg = short, t }

func (c *rtCompiler) compileCall(n *ECall, sc *rtScope) string {
	var args []string
	arg := func(i int) string {
		if i >= len(n.Args) {
			c.fail("%s: missing argument", n.Fun)
		}
		return c.compile(n.Args[i], sc)
	}
	all := func() []string {
		for i := range n.Args {
			args = append(args, arg(i))
		}
		return args
	}
	switch n.Fun {
	case "len":
		return "len(" + arg(0) + ")"
	case "cap":
		return "cap(" + arg(0) + ")"
	case "fresh", "allocated":
		c.fail("%s() is not observable at run time", n.Fun)
	case "contains", "strings.Contains":
		return "strings.Contains(string(" + arg(0) + "), string(" + arg(1) + "))"
	case "hasPrefix", "strings.HasPrefix":
		return "strings.HasPrefix(string(" + arg(0) + "), string(" + arg(1) + "))"
	case "hasSuffix", "strings.HasSuffix":
		return "strings.HasSuffix(string(" + arg(0) + "), string(" + arg(1) + "))"
	case "substr":
		return "rtSubstr(" + arg(0) + ", " + arg(1) + ", " + arg(2) + ")"
	case "indexOf":
		return "strings.Index(" + arg(0) + ", " + arg(1) + ")"
	case "replaceAll":
		return "strings.ReplaceAll(" + arg(0) + ", " + arg(1) + ", " + arg(2) + ")"
	case "itoa":
		return "strconv.Itoa(int(" + arg(0) + "))"
	case "atoi":
		return "rtAtoiVal(" + arg(0) + ")"
	case "atoiOk":
		return "rtAtoiOk(" + arg(0) + ")"
	case "atoiVal":
		return "rtAtoiVal(" + arg(0) + ")"
	case "string", "int", "int64", "bool", "uint":
		return n.Fun + "(" + arg(0) + ")"
	case "has":
		return "rtHas(" + arg(0) + ", " + arg(1) + ")"
	case "httpCode":
		return "rtHTTPCode(" + arg(0) + ")"
	case "isHTTP":
		return "(rtHTTPCode(" + arg(0) + ") != -1)"
	case "dynHTTP":
		return "rtDynHTTP(" + arg(0) + ")"
	case "davErr":
		return "rtDavErr(" + arg(0) + ")"
	case "hostPath":
		return "false"
	case "errText":
		return "(" + arg(0) + ").Error()"
	case "ns":
		return "rtNs(" + c.timeExpr(n.Args[0], sc) + ")"
	case "isZeroTime":
		return c.timeExpr(n.Args[0], sc) + ".IsZero()"
	case "zeroTime":
		c.imports["time"] = "time"
		return "time.Time{}"
	case "truncSec":
		return "rtTruncSec(" + arg(0) + ")"
	case "unquoteOk":
		return "rtUnquoteOk(" + arg(0) + ")"
	case "unquoteVal":
		return "rtUnquoteVal(" + arg(0) + ")"
	case "quote":
		return "strconv.Quote(" + arg(0) + ")"
	case "statusText":
		c.imports["net/http"] = "http"
		return "http.StatusText(" + arg(0) + ")"
	case "timeParseOk":
		return "rtTimeParseOk(" + arg(0) + ", " + arg(1) + ")"
	case "timeParseNs":
		return "rtTimeParseNs(" + arg(0) + ", " + arg(1) + ")"
	case "timeFormat":
		return "rtTimeFormat(" + arg(0) + ", " + arg(1) + ")"
	case "wallNs":
		return "rtWallNs(" + c.timeExpr(n.Args[0], sc) + ")"
	case "urlParseOk":
		return "rtURLParseOk(" + arg(0) + ")"
	case "urlParsePath":
		return "rtURLParsePath(" + arg(0) + ")"
	case "implies":
		return "(!(" + arg(0) + ") || (" + arg(1) + "))"
	case "smt":
		c.fail("raw SMT term")
	}
	if sf, ok := c.x.Lib.Specs[n.Fun]; ok {
		if sf.Pkg != "" && sf.Pkg != c.pkg {
			c.fail("spec function %s of package %s", sf.Name, sf.Pkg)
		}
		return c.specCall(sf, all())
	}
	// alias of an extern result
	for _, con := range c.x.Lib.Funcs {
		for i, a := range con.Aliases {
			if a != n.Fun {
				continue
			}
			call := c.externCall(con.Key, all())
			if c.x.externTypes == nil {
				c.x.scanExterns()
			}
			switch len(c.x.externTypes[con.Key]) {
			case 1:
				return call
			case 2:
				return fmt.Sprintf("rt%d(%s)", i, call)
			}
			c.fail("extern %s with more than two results", con.Key)
		}
	}
	c.fail("function %s", n.Fun)
	return ""
}

var methodKeyRe = regexp.MustCompile(`^(\w+)\.\((\*?)(\w+)\)\.(\w+)$`)

func (c *rtCompiler) externCall(key string, args []string) string {
	if m := methodKeyRe.FindStringSubmatch(key); m != nil {
		if len(args) == 0 {
			c.fail("method extern without receiver")
		}
		return "(" + args[0] + ")." + m[4] + "(" + strings.Join(args[1:], ", ") + ")"
	}
	if i := strings.Index(key, "."); i > 0 {
		c.importByName(key[:i])
		return key + "(" + strings.Join(args, ", ") + ")"
	}
	c.fail("extern key %s", key)
	return ""
}

// ---------------------------------------------------------------------------
// test generation

type rtClause struct {
	Label string
	Code  string
	Err   string
}

type rtFuncPlan struct {
	Key         string
	TestName    string
	Requires    []rtClause
	Ensures     []rtClause
	Unsupported []string
	Code        string
}

func rtTestName(key string) string {
	return "TestGovcRT_" + regexp.MustCompile(`[^A-Za-z0-9]+`).ReplaceAllString(key, "_")
}

func (c *rtCompiler) tryCompile(ex Expr, sc *rtScope) (code string, err string) {
	defer func() {
		if r := recover(); r != nil {
			switch e := r.(type) {
			case rtUnsupported:
				err = e.why
			case evalError:
				err = e.msg
			case engineError:
				err = e.msg
			default:
				panic(r)
			}
		}
	}()
	return c.compile(ex, sc), ""
}

func (c *rtCompiler) planFunc(key string, iters int) (*rtFuncPlan, error) {
	fn := c.x.P.Funcs[key]
	con := c.x.Lib.Funcs[key]
	if fn == nil {
		return nil, fmt.Errorf("function %s not found", key)
	}
	if con == nil {
		return nil, fmt.Errorf("function %s has no contract", key)
	}
	obj, _ := fn.Object().(*types.Func)
	if obj == nil {
		return nil, fmt.Errorf("%s is not a declared function", key)
	}
	sig := fn.Signature
	plan := &rtFuncPlan{Key: key, TestName: rtTestName(key)}
	sc := &rtScope{names: map[string]string{}, old: map[string]string{}, types: map[string]types.Type{}, bound: map[string]types.Type{}}
	var b strings.Builder
	var pnames []string
	var decl, snaps []string
	for i, p := range fn.Params {
		g := fmt.Sprintf("p%d", i)
		pnames = append(pnames, g)
		sc.names[p.Name()] = g
		sc.old[p.Name()] = "o_" + g
		sc.types[p.Name()] = p.Type()
		ts := c.typeStr(p.Type())
		switch {
		case ts == "context.Context":
			c.imports["context"] = "context"
			decl = append(decl, fmt.Sprintf("var %s %s = context.Background()", g, ts))
		default:
			decl = append(decl, fmt.Sprintf("var %s %s; rtFill(r, reflect.ValueOf(&%s).Elem(), 6)", g, ts, g))
		}
		snaps = append(snaps, fmt.Sprintf("o_%s := rtCopy(%s); _ = o_%s", g, g, g))
	}
	// requires (entry state)
	for _, r := range con.Requires {
		code, err := c.tryCompile(r.Expr, sc)
		plan.Requires = append(plan.Requires, rtClause{r.Label, code, err})
		if err != "" {
			plan.Unsupported = append(plan.Unsupported, "requires "+r.Label+": "+err)
		}
	}
	// results
	var rnames, rdecl []string
	for i := 0; i < sig.Results().Len(); i++ {
		g := fmt.Sprintf("r%d", i)
		rnames = append(rnames, g)
		rdecl = append(rdecl, fmt.Sprintf("var %s %s; _ = %s", g, c.typeStr(sig.Results().At(i).Type()), g))
		name := sig.Results().At(i).Name()
		if i < len(con.ResNames) {
			name = con.ResNames[i]
		}
		rt := sig.Results().At(i).Type()
		if name != "" && name != "_" {
			sc.names[name] = g
			sc.types[name] = rt
		}
		sc.names[fmt.Sprintf("result%d", i)] = g
		sc.types[fmt.Sprintf("result%d", i)] = rt
		if sig.Results().Len() == 1 {
			sc.names["result"] = g
			sc.types["result"] = rt
		}
	}
	// in ensures, parameter names denote entry values (the snapshot) when the parameter itself could have been
	// reassigned; heap reads through them see the final heap, so the live variable is the right choice here.
	for _, e := range con.Ensures {
		code, err := c.tryCompile(e.Expr, sc)
		plan.Ensures = append(plan.Ensures, rtClause{e.Label, code, err})
		if err != "" {
			plan.Unsupported = append(plan.Unsupported, "ensures "+e.Label+": "+err)
		}
	}
	// the call
	call := ""
	cargs := append([]string{}, pnames...)
	if sig.Variadic() && len(cargs) > 0 {
		// the generated slice is the variadic argument list itself
		cargs[len(cargs)-1] += "..."
	}
	if sig.Recv() != nil {
		call = fmt.Sprintf("(%s).%s(%s)", cargs[0], obj.Name(), strings.Join(cargs[1:], ", "))
	} else {
		call = fmt.Sprintf("%s(%s)", obj.Name(), strings.Join(cargs, ", "))
	}
	if len(rnames) > 0 {
		call = strings.Join(rnames, ", ") + " = " + call
	}
	fmt.Fprintf(&b, "func %s(t *testing.T) {\n", plan.TestName)
	fmt.Fprintf(&b, "\tseed, only, n := rtSeed(), rtOnlyIter(), rtIters(%d)\n\tchecked, skipped := 0, 0\n", iters)
	fmt.Fprintf(&b, "\tfor iter := 0; iter < n; iter++ {\n\t\tif only >= 0 && iter != only {\n\t\t\tcontinue\n\t\t}\n")
	fmt.Fprintf(&b, "\t\tr := rtNewRand(seed, iter, rtStrPool)\n")
	for _, d := range decl {
		fmt.Fprintf(&b, "\t\t%s\n", d)
	}
	for _, p := range pnames {
		fmt.Fprintf(&b, "\t\t_ = %s\n", p)
	}
	pre := "true"
	for _, r := range plan.Requires {
		if r.Err != "" {
			continue
		}
		fmt.Fprintf(&b, "\t\tif v, ok := rtEval(func() bool { return %s }); !ok || !v {\n\t\t\tskipped++\n\t\t\tcontinue\n\t\t}\n", r.Code)
	}
	_ = pre
	fmt.Fprintf(&b, "\t\tinput := rtDump([]any{%s})\n", strings.Join(pnames, ", "))
	for _, s := range snaps {
		fmt.Fprintf(&b, "\t\t%s\n", s)
	}
	for _, d := range rdecl {
		fmt.Fprintf(&b, "\t\t%s\n", d)
	}
	fmt.Fprintf(&b, "\t\tif pv := rtCall(func() { %s }); pv != nil {\n\t\t\tt.Fatalf(\"GOVC-RT-FAIL fn=%s clause=no-panic iter=%%d seed=%%d panic=%%v input=%%s\", iter, seed, pv, input)\n\t\t}\n", call, key)
	fmt.Fprintf(&b, "\t\tchecked++\n")
	for _, e := range plan.Ensures {
		if e.Err != "" {
			continue
		}
		fmt.Fprintf(&b, "\t\tif v, ok := rtEval(func() bool { return %s }); ok && !v {\n\t\t\tt.Fatalf(\"GOVC-RT-FAIL fn=%s clause=%s iter=%%d seed=%%d input=%%s results=%%s\", iter, seed, input, rtDump([]any{%s}))\n\t\t}\n", e.Code, key, e.Label, strings.Join(rnames, ", "))
	}
	if con.HasAssigns && len(con.Assigns) == 0 {
		for _, p := range pnames {
			fmt.Fprintf(&b, "\t\tif !rtDeepEq(%s, o_%s) {\n\t\t\tt.Fatalf(\"GOVC-RT-FAIL fn=%s clause=frame iter=%%d seed=%%d input=%%s after=%%s\", iter, seed, input, rtDump(%s))\n\t\t}\n", p, p, key, p)
		}
	}
	fmt.Fprintf(&b, "\t}\n\tt.Logf(\"GOVC-RT fn=%s checked=%%d skipped=%%d\", checked, skipped)\n}\n\n", key)
	plan.Code = b.String()
	return plan, nil
}

type rtResult struct {
	Key         string   `json:"function"`
	Checked     int      `json:"inputs_checked"`
	Skipped     int      `json:"inputs_skipped_by_requires"`
	Clauses     []string `json:"clauses_evaluated"`
	Unsupported []string `json:"clauses_not_evaluable"`
	Failed      bool     `json:"failed"`
	FailLine    string   `json:"failure,omitempty"`
	FailClause  string   `json:"failed_clause,omitempty"`
	Iter        int      `json:"iter"`
	Seed        int      `json:"seed"`
	Package     string   `json:"package"`
	Error       string   `json:"error,omitempty"`
}

// runRT generates and runs the runtime checks for the given function keys.
func runRT(P *Program, L *Library, keys []string, iters int, seed int, onlyIter int) []*rtResult {
	byPkg := map[string][]string{}
	for _, k := range keys {
		fn := P.Funcs[k]
		if fn == nil || fn.Pkg == nil {
			continue
		}
		sp := shortPkg(fn.Pkg.Pkg.Path())
		byPkg[sp] = append(byPkg[sp], k)
	}
	var out []*rtResult
	var pkgs []string
	for p := range byPkg {
		pkgs = append(pkgs, p)
	}
	sort.Strings(pkgs)
	for _, sp := range pkgs {
		out = append(out, runRTPackage(P, L, sp, byPkg[sp], iters, seed, onlyIter)...)
	}
	return out
}

func pkgDir(short string) string {
	switch short {
	case "webdav":
		return "."
	}
	return short
}

func runRTPackage(P *Program, L *Library, sp string, keys []string, iters, seed, onlyIter int) []*rtResult {
	x := newExec(P, L)
	x.closures = map[string]*closureInfo{}
	x.known = map[string]string{}
	c := &rtCompiler{x: x, pkg: sp, tpkg: x.pkgTypes(sp), imports: map[string]string{}, specs: map[string]bool{}, specCode: map[string]string{}, pool: map[string]bool{}, bindings: map[string]bool{}}
	bindPath := filepath.Join(verifDir, "rt", sp+"_bindings.go.txt")
	bindSrc := ""
	if data, err := os.ReadFile(bindPath); err == nil {
		bindSrc = string(data)
		for _, m := range regexp.MustCompile(`func (rtS_\w+)\(`).FindAllStringSubmatch(bindSrc, -1) {
			c.bindings[m[1]] = true
		}
	}
	var results []*rtResult
	var plans []*rtFuncPlan
	for _, k := range keys {
		res := &rtResult{Key: k, Package: sp, Seed: seed, Iter: -1}
		results = append(results, res)
		// an argument of an opaque library type (a struct of another module with unexported state, e.g. *xml.Decoder)
		// cannot be generated in a valid state: the zero value violates the library's own invariant and calling the
		// function with it proves nothing (false alarm of the thorough tier on reportReq.UnmarshalXML, round 3)
		if f := x.P.Funcs[k]; f != nil {
			if why := opaqueLibraryParam(f); why != "" {
				res.Error = "run-time evaluation not applicable: " + why
				continue
			}
		}
		plan, err := c.planFunc(k, iters)
		if err != nil {
			res.Error = err.Error()
			continue
		}
		// a precondition that cannot be evaluated at run time cannot be respected by the input generator: running
		// the function then proves nothing (a panic or a failed clause may just be a violated precondition)
		reqBlind := ""
		for _, r := range plan.Requires {
			if r.Err != "" {
				reqBlind = r.Label
			}
		}
		if reqBlind != "" {
			res.Error = "run-time evaluation not applicable: precondition " + reqBlind + " is not evaluable at run time (" + strings.Join(plan.Unsupported, "; ") + ")"
			res.Unsupported = plan.Unsupported
			continue
		}
		plans = append(plans, plan)
		res.Unsupported = plan.Unsupported
		for _, e := range plan.Ensures {
			if e.Err == "" {
				res.Clauses = append(res.Clauses, e.Label)
			}
		}
	}
	var lits []string
	for s := range c.pool {
		lits = append(lits, strconv.Quote(s))
	}
	sort.Strings(lits)
	// string pool: literals of the contracts plus constants of named string types of the package
	for _, name := range c.tpkg.Scope().Names() {
		if cst, ok := c.tpkg.Scope().Lookup(name).(*types.Const); ok {
			if b, ok := cst.Type().Underlying().(*types.Basic); ok && b.Info()&types.IsString != 0 {
				if s, err := strconv.Unquote(cst.Val().ExactString()); err == nil && len(s) < 40 {
					c.pool[s] = true
				}
			}
		}
	}
	for _, s := range []string{"", "a", "b", "ab", "A", "*", "\"a\"", "\"b\"", "\"a", "a b c", "HTTP/1.1 200 OK", "HTTP/1.1 404 Not Found", "0", "1", "infinity", "T", "F",
		"Mon, 01 Jan 2024 10:00:00 GMT", "20240101T100000Z", "20240101T110000Z", "20240101", "/", "/a", "/a/b", "/a b", "/a%20b", "//a", "UID", "DTSTART", "DTEND", "SUMMARY", "VEVENT", "VTIMEZONE", "VTODO", "VCALENDAR", "FN", "EMAIL", "VERSION"} {
		c.pool[s] = true
	}
	var pool []string
	for s := range c.pool {
		pool = append(pool, strconv.Quote(s))
	}
	sort.Strings(pool)
	var src strings.Builder
	src.WriteString("//go:build go1.18\n\n// Code generated by govc rt. DO NOT EDIT.\n\npackage " + c.tpkg.Name() + "\n\nimport (\n\t\"reflect\"\n\t\"testing\"\n\t\"strings\"\n\t\"strconv\"\n")
	c.imports["reflect"] = "reflect"
	var imps []string
	for path, name := range c.imports {
		if path == "reflect" || path == "testing" || path == "strings" || path == "strconv" {
			continue
		}
		imps = append(imps, fmt.Sprintf("\t%s %q\n", name, path))
	}
	sort.Strings(imps)
	for _, i := range imps {
		src.WriteString(i)
	}
	src.WriteString(")\n\nvar _ = reflect.TypeOf\nvar _ = strings.Contains\nvar _ = strconv.Itoa\n\n")
	src.WriteString("var rtStrPool = []string{" + strings.Join(pool, ", ") + "}\n\n")
	src.WriteString("var rtLitPool = []string{" + strings.Join(lits, ", ") + "}\n\n")
	var specNames []string
	for n := range c.specCode {
		specNames = append(specNames, n)
	}
	sort.Strings(specNames)
	for _, n := range specNames {
		src.WriteString(c.specCode[n])
	}
	for _, p := range plans {
		src.WriteString(p.Code)
	}
	work := filepath.Join(verifDir, "work", "rt", sp)
	os.MkdirAll(work, 0o755)
	testFile := filepath.Join(work, "zz_govc_rt_test.go")
	helpFile := filepath.Join(work, "zz_govc_rthelpers_test.go")
	bindFile := filepath.Join(work, "zz_govc_rtbind_test.go")
	os.WriteFile(testFile, []byte(src.String()), 0o644)
	himp, hcode := rtHTTPHelpers(sp)
	os.WriteFile(helpFile, []byte(strings.Replace(strings.Replace(rtHelpers, "PKGNAME", c.tpkg.Name(), 1), "EXTRAIMPORTS", himp, 1)+hcode), 0o644)
	repl := map[string]string{
		filepath.Join(repoDir, pkgDir(sp), "zz_govc_rt_test.go"):        testFile,
		filepath.Join(repoDir, pkgDir(sp), "zz_govc_rthelpers_test.go"): helpFile,
	}
	if bindSrc != "" {
		os.WriteFile(bindFile, []byte(bindSrc), 0o644)
		repl[filepath.Join(repoDir, pkgDir(sp), "zz_govc_rtbind_test.go")] = bindFile
	}
	ov, _ := json.Marshal(map[string]interface{}{"Replace": repl})
	ovFile := filepath.Join(work, "overlay.json")
	os.WriteFile(ovFile, ov, 0o644)
	var names []string
	for _, p := range plans {
		names = append(names, p.TestName)
	}
	if len(names) == 0 {
		return results
	}
	args := []string{"test", "-tags", "verif", "-overlay", ovFile, "-vet=off", "-count=1", "-timeout", "300s", "-v", "-run", "^(" + strings.Join(names, "|") + ")$", "./" + pkgDir(sp)}
	cmd := exec.Command("go", args...)
	cmd.Dir = repoDir
	cmd.Env = append(os.Environ(), "GOFLAGS=-mod=mod", "GOPROXY=off", "GOSUMDB=off", "GOTOOLCHAIN=local", fmt.Sprintf("GOVC_RT_SEED=%d", seed))
	if onlyIter >= 0 {
		cmd.Env = append(cmd.Env, fmt.Sprintf("GOVC_RT_ITER=%d", onlyIter))
	}
	outb, _ := cmd.CombinedOutput()
	outS := string(outb)
	os.WriteFile(filepath.Join(work, "output.txt"), outb, 0o644)
	byKey := map[string]*rtResult{}
	for _, r := range results {
		byKey[r.Key] = r
	}
	okRe := regexp.MustCompile(`GOVC-RT fn=(\S+) checked=(\d+) skipped=(\d+)`)
	failRe := regexp.MustCompile(`GOVC-RT-FAIL fn=(\S+) clause=(\S+) iter=(\d+) seed=(-?\d+)(.*)`)
	sawAny := false
	for _, line := range strings.Split(outS, "\n") {
		if m := okRe.FindStringSubmatch(line); m != nil {
			if r := byKey[m[1]]; r != nil {
				r.Checked, _ = strconv.Atoi(m[2])
				r.Skipped, _ = strconv.Atoi(m[3])
				sawAny = true
			}
		}
		if m := failRe.FindStringSubmatch(line); m != nil {
			if r := byKey[m[1]]; r != nil {
				r.Failed = true
				r.FailClause = m[2]
				r.Iter, _ = strconv.Atoi(m[3])
				r.FailLine = strings.TrimSpace(line)
				if len(r.FailLine) > 3000 {
					r.FailLine = r.FailLine[:3000]
				}
				sawAny = true
			}
		}
	}
	if !sawAny && len(keys) > 1 {
		// the generated file does not build or crashed: run the functions one by one so that one bad
		// translation does not hide the others
		var all []*rtResult
		for _, k := range keys {
			all = append(all, runRTPackage(P, L, sp, []string{k}, iters, seed, onlyIter)...)
		}
		return all
	}
	if !sawAny {
		// build failure or crash: report on every function
		msg := outS
		if len(msg) > 1500 {
			msg = msg[:1500]
		}
		for _, r := range results {
			if r.Error == "" {
				r.Error = "runtime harness did not run: " + msg
			}
		}
	}
	return results
}

// rtHTTPHelpers: error-algebra observers evaluated on real error values
func rtHTTPHelpers(sp string) (imports string, code string) {
	q := ""
	if sp != "internal" {
		imports = "\trtinternal \"github.com/emersion/go-webdav/internal\""
		q = "rtinternal."
	}
	s := `
func rtHTTPCode(err error) int {
	var he *` + q + `HTTPError
	if errors.As(err, &he) && he != nil {
		return he.Code
	}
	return -1
}

func rtDynHTTP(err error) bool { _, ok := err.(*` + q + `HTTPError); return ok }

func rtDavErr(err error) bool {
	var de *` + q + `Error
	return errors.As(err, &de)
}
`
	s += `
func rtURLParseOk(s string) bool { _, err := rtURLParse(s); return err == nil }
func rtURLParsePath(s string) string { u, err := rtURLParse(s); if err != nil { return "" }; return u }
`
	return imports, s
}

func cmdRT(args []string) {
	P, err := loadProgram()
	if err != nil {
		fmt.Fprintln(os.Stderr, err)
		os.Exit(3)
	}
	L, err := loadLibrary()
	if err != nil {
		fmt.Fprintln(os.Stderr, err)
		os.Exit(3)
	}
	iters := 2000
	seed := 1
	var keys []string
	for i := 0; i < len(args); i++ {
		switch args[i] {
		case "-n":
			i++
			iters, _ = strconv.Atoi(args[i])
		case "-seed":
			i++
			seed, _ = strconv.Atoi(args[i])
		default:
			keys = append(keys, args[i])
		}
	}
	bad := 0
	for _, r := range runRT(P, L, keys, iters, seed, -1) {
		data, _ := json.MarshalIndent(r, "", " ")
		fmt.Println(string(data))
		if r.Failed || r.Error != "" {
			bad++
		}
	}
	if bad > 0 {
		os.Exit(1)
	}
}

var _ = ssa.NaiveForm

// substExpr replaces free identifiers.
func substExpr(ex Expr, m map[string]Expr) Expr {
	switch n := ex.(type) {
	case *EIdent:
		if r, ok := m[n.Name]; ok {
			return r
		}
		return n
	case *EUn:
		return &EUn{Op: n.Op, X: substExpr(n.X, m)}
	case *EBin:
		return &EBin{Op: n.Op, X: substExpr(n.X, m), Y: substExpr(n.Y, m)}
	case *ESel:
		return &ESel{X: substExpr(n.X, m), Name: n.Name}
	case *EIdx:
		return &EIdx{X: substExpr(n.X, m), I: substExpr(n.I, m)}
	case *ECall:
		c := &ECall{Fun: n.Fun}
		for _, a := range n.Args {
			c.Args = append(c.Args, substExpr(a, m))
		}
		return c
	case *EOld:
		return &EOld{X: substExpr(n.X, m)}
	case *ECond:
		return &ECond{C: substExpr(n.C, m), A: substExpr(n.A, m), B: substExpr(n.B, m)}
	case *ELet:
		m2 := map[string]Expr{}
		for k, v := range m {
			if k != n.Name {
				m2[k] = v
			}
		}
		return &ELet{Name: n.Name, V: substExpr(n.V, m), Body: substExpr(n.Body, m2)}
	case *EQuant:
		m2 := map[string]Expr{}
		for k, v := range m {
			m2[k] = v
		}
		for _, qv := range n.Vars {
			delete(m2, qv.Name)
		}
		return &EQuant{Forall: n.Forall, Vars: n.Vars, Body: substExpr(n.Body, m2)}
	}
	return ex
}

// opaqueLibraryParam: a parameter whose type is a pointer to a struct declared outside the module under verification
// that has unexported fields (its valid states are known to its own package only).
func opaqueLibraryParam(f *ssa.Function) string {
	for _, p := range f.Params {
		pt, ok := p.Type().Underlying().(*types.Pointer)
		if !ok {
			continue
		}
		n, ok := pt.Elem().(*types.Named)
		if !ok || n.Obj().Pkg() == nil || strings.HasPrefix(n.Obj().Pkg().Path(), "github.com/emersion/go-webdav") {
			continue
		}
		st, ok := n.Underlying().(*types.Struct)
		if !ok {
			continue
		}
		for i := 0; i < st.NumFields(); i++ {
			if !st.Field(i).Exported() {
				return "parameter " + p.Name() + " has the opaque library type *" + n.Obj().Pkg().Name() + "." + n.Obj().Name()
			}
		}
	}
	return ""
}
