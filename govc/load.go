package main

import (
	"fmt"
	"go/types"
	"os"
	"sort"
	"strings"

	"golang.org/x/tools/go/packages"
	"golang.org/x/tools/go/ssa"
	"golang.org/x/tools/go/ssa/ssautil"
)

const modPath = "github.com/emersion/go-webdav"

var repoDir = func() string {
	if d := os.Getenv("GOVC_REPO"); d != "" {
		return d
	}
	return "/repo"
}()

type Program struct {
	Prog  *ssa.Program
	Pkgs  []*packages.Package
	SPkgs []*ssa.Package
	// all functions (incl. methods and anonymous functions) of the four library packages by qualified name
	Funcs map[string]*ssa.Function
}

// shortPkg maps an import path of the module to the short package key used in contracts.
func shortPkg(path string) string {
	switch path {
	case modPath:
		return "webdav"
	case modPath + "/internal":
		return "internal"
	case modPath + "/caldav":
		return "caldav"
	case modPath + "/carddav":
		return "carddav"
	}
	return path
}

// funcKey: pkg.Func, pkg.(T).M, pkg.(*T).M, pkg.Func$1
func funcKey(f *ssa.Function) string {
	if f.Pkg == nil && f.Parent() == nil && f.Signature.Recv() == nil {
		return f.String()
	}
	if f.Parent() != nil {
		return funcKey(f.Parent()) + strings.TrimPrefix(f.Name(), f.Parent().Name())
	}
	pkg := ""
	var tp *types.Package
	if f.Pkg != nil {
		tp = f.Pkg.Pkg
	} else if f.Object() != nil && f.Object().Pkg() != nil {
		tp = f.Object().Pkg()
	}
	if tp != nil {
		pkg = shortPkg(tp.Path())
		if pkg == tp.Path() {
			pkg = tp.Name() // packages outside the module are keyed by package name
		}
	}
	if recv := f.Signature.Recv(); recv != nil {
		t := recv.Type().String()
		ptr := strings.HasPrefix(t, "*")
		t = strings.TrimPrefix(t, "*")
		if i := strings.LastIndex(t, "."); i >= 0 {
			t = t[i+1:]
		}
		if ptr {
			return fmt.Sprintf("%s.(*%s).%s", pkg, t, f.Name())
		}
		return fmt.Sprintf("%s.(%s).%s", pkg, t, f.Name())
	}
	return pkg + "." + f.Name()
}

func loadProgram() (*Program, error) {
	cfg := &packages.Config{
		Mode:       packages.LoadAllSyntax,
		Dir:        repoDir,
		BuildFlags: []string{"-tags=verif"},
		Env:        append(os.Environ(), "GOFLAGS=-mod=mod", "GOPROXY=off", "GOSUMDB=off", "GOTOOLCHAIN=local"),
	}
	pkgs, err := packages.Load(cfg, ".", "./internal", "./caldav", "./carddav")
	if err != nil {
		return nil, err
	}
	var errs []string
	packages.Visit(pkgs, nil, func(p *packages.Package) {
		if strings.HasPrefix(p.PkgPath, modPath) {
			for _, e := range p.Errors {
				errs = append(errs, e.Error())
			}
		}
	})
	if len(errs) > 0 {
		return nil, fmt.Errorf("load errors: %s", strings.Join(errs, "; "))
	}
	prog, spkgs := ssautil.Packages(pkgs, ssa.NaiveForm|ssa.GlobalDebug)
	prog.Build()
	P := &Program{Prog: prog, Pkgs: pkgs, SPkgs: spkgs, Funcs: map[string]*ssa.Function{}}
	for _, sp := range spkgs {
		if sp == nil {
			continue
		}
		for _, m := range sp.Members {
			switch x := m.(type) {
			case *ssa.Function:
				P.addFunc(x)
			case *ssa.Type:
				for _, T := range []interface{ String() string }{x.Type()} {
					_ = T
				}
				mset := prog.MethodSets.MethodSet(x.Type())
				for i := 0; i < mset.Len(); i++ {
					if f := prog.MethodValue(mset.At(i)); f != nil {
						P.addFunc(f)
					}
				}
				pm := prog.MethodSets.MethodSet(typesNewPointer(x.Type()))
				for i := 0; i < pm.Len(); i++ {
					if f := prog.MethodValue(pm.At(i)); f != nil {
						P.addFunc(f)
					}
				}
			}
		}
	}
	return P, nil
}

func (P *Program) addFunc(f *ssa.Function) {
	if f.Synthetic != "" || f.Blocks == nil {
		return
	}
	k := funcKey(f)
	if _, ok := P.Funcs[k]; ok {
		return
	}
	P.Funcs[k] = f
	for _, a := range f.AnonFuncs {
		P.addFunc(a)
	}
}

func (P *Program) funcNames() []string {
	var out []string
	for k := range P.Funcs {
		out = append(out, k)
	}
	sort.Strings(out)
	return out
}

func cmdDump(args []string) {
	P, err := loadProgram()
	if err != nil {
		fmt.Fprintln(os.Stderr, err)
		os.Exit(3)
	}
	if len(args) == 0 {
		for _, n := range P.funcNames() {
			fmt.Println(n)
		}
		return
	}
	for _, a := range args {
		f := P.Funcs[a]
		if f == nil {
			fmt.Println("no such function:", a)
			continue
		}
		f.WriteTo(os.Stdout)
	}
}
