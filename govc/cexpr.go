package main

// Evaluation of contract expressions to SMT terms over a symbolic state.

import (
	"fmt"
	"go/constant"
	"go/token"
	"go/types"
	"sort"
	"strconv"
	"strings"
)

type Env struct {
	x      *Exec
	st     *State // state in which heap reads are resolved
	old    *State // state designated by old(...)
	names  map[string]Val
	onames map[string]Val // names inside old(...) (entry values); falls back to names
	bound  map[string]Val
	pkg    string // short package name for constant / type resolution
	loop   *loopInfo
	frame  *Frame
	loopsByOrd map[int]*loopInfo
	// definitional equations for recursive spec applications encountered
	unfold   *[]string
	qvars    []string // enclosing bound variables "(name Sort)"
	noUnfold int
	where    string
	addrs    map[string]Val // escaped locals: name -> pointer
}

type evalError struct{ msg string }

func (e *Env) fail(format string, a ...interface{}) {
	panic(evalError{fmt.Sprintf(format, a...)})
}

func (e *Env) child() *Env {
	n := *e
	n.bound = map[string]Val{}
	for k, v := range e.bound {
		n.bound[k] = v
	}
	return &n
}

// evalBool evaluates a clause to an SMT Bool term; returns error text on failure.
func (e *Env) evalBool(ex Expr) (term string, err error) {
	defer func() {
		if r := recover(); r != nil {
			if ee, ok := r.(evalError); ok {
				err = fmt.Errorf("%s", ee.msg)
				return
			}
			panic(r)
		}
	}()
	e.x.quiet++
	defer func() { e.x.quiet-- }()
	v := e.eval(ex)
	if e.sortOfVal(v) != "Bool" {
		return "", fmt.Errorf("clause is not boolean (sort %s)", e.sortOfVal(v))
	}
	return v.Term, nil
}

func (e *Env) sortOfVal(v Val) string {
	if v.GS != "" {
		return v.GS
	}
	if v.T == nil {
		return "?"
	}
	return e.x.C.sortOf(v.T)
}

var (
	tInt    = types.Typ[types.Int]
	tBool   = types.Typ[types.Bool]
	tString = types.Typ[types.String]
	tError  = types.Universe.Lookup("error").Type()
)

func (e *Env) eval(ex Expr) Val {
	switch n := ex.(type) {
	case *EInt:
		return Val{T: tInt, Term: n.V}
	case *EStr:
		return Val{T: tString, Term: smtString(n.V)}
	case *EBool:
		return Val{T: tBool, Term: strconv.FormatBool(n.V)}
	case *ENil:
		return Val{T: types.Typ[types.UntypedNil], Term: "nil"}
	case *EIter:
		return e.evalIter(n)
	case *EIdent:
		return e.lookup(n.Name)
	case *EOld:
		if e.old == nil {
			e.fail("old() not available here")
		}
		c := e.child()
		c.st = e.old
		if e.onames != nil {
			c.names = e.onames
		}
		return c.eval(n.X)
	case *EUn:
		if n.Op == "&" {
			// address of an escaped local variable
			id, ok := n.X.(*EIdent)
			if !ok || e.addrs == nil {
				e.fail("& is only available on local variables in invariants")
			}
			if pv, ok := e.addrs[id.Name]; ok {
				return pv
			}
			e.fail("&%s: not an escaped local variable", id.Name)
		}
		v := e.eval(n.X)
		switch n.Op {
		case "!":
			return Val{T: tBool, Term: not(v.Term)}
		case "-":
			return Val{T: v.T, GS: v.GS, Term: "(- " + v.Term + ")"}
		case "*":
			pt, ok := v.T.Underlying().(*types.Pointer)
			if !ok {
				e.fail("dereference of non-pointer %s", v.T)
			}
			return e.x.loadLoc(e.st, &Loc{Kind: locHeap, Ref: v.Term, Root: pt.Elem()})
		}
	case *EBin:
		return e.evalBin(n)
	case *ECond:
		c := e.eval(n.C)
		a := e.eval(n.A)
		b := e.eval(n.B)
		a, b = e.unifyNil(a, b)
		return Val{T: a.T, GS: a.GS, Term: ite(c.Term, a.Term, b.Term)}
	case *ELet:
		v := e.eval(n.V)
		c := e.child()
		c.bound[n.Name] = v
		return c.eval(n.Body)
	case *EQuant:
		c := e.child()
		var decl []string
		for _, qv := range n.Vars {
			t, gs := e.x.resolveType(e.pkg, qv.Type)
			name := "q_" + qv.Name
			c.bound[qv.Name] = Val{T: t, GS: gs, Term: name}
			srt := gs
			if srt == "" {
				srt = e.x.C.sortOf(t)
			}
			d := fmt.Sprintf("(%s %s)", name, srt)
			decl = append(decl, d)
			c.qvars = append(c.qvars[:len(c.qvars):len(c.qvars)], d)
		}
		body := c.eval(n.Body)
		q := "exists"
		if n.Forall {
			q = "forall"
		}
		return Val{T: tBool, Term: fmt.Sprintf("(%s (%s) %s)", q, strings.Join(decl, " "), body.Term)}
	case *ESel:
		return e.evalSel(n)
	case *EIdx:
		return e.evalIdx(n)
	case *ECall:
		return e.evalCall(n)
	}
	e.fail("unsupported expression %T", ex)
	return Val{}
}

func (e *Env) evalIter(n *EIter) Val {
	li := e.loop
	if n.Loop != 0 {
		li = e.loopsByOrd[n.Loop]
	}
	if li != nil && li.riCell == nil && e.frame != nil {
		// range over a map: the number of keys produced by completed iterations
		if rg := loopSeenRange(li); rg != nil {
			if cv, ok := e.st.heaps["cnt:"+seenKey(e.frame, rg)]; ok {
				return Val{T: tInt, Term: cv}
			}
			return Val{T: tInt, Term: "0"}
		}
	}
	if li == nil || li.riCell == nil || e.frame == nil {
		e.fail("#i used outside a range-over-slice loop")
	}
	v, ok := e.st.cells[cellKey{e.frame.id, li.riCell}]
	if !ok {
		// the loop has not been entered on this path
		return Val{T: tInt, Term: "0"}
	}
	return Val{T: tInt, Term: fmt.Sprintf("(+ %s 1)", v.Term)}
}

func (e *Env) lookup(name string) Val {
	if v, ok := e.bound[name]; ok {
		return v
	}
	if v, ok := e.names[name]; ok {
		return v
	}
	// ghost state
	if ty, ok := e.x.Lib.Ghosts[name]; ok {
		t, gs := e.x.resolveType(e.x.Lib.GhostPkg[name], ty)
		srt := gs
		if srt == "" {
			srt = e.x.C.sortOf(t)
		}
		return Val{T: t, GS: gs, Term: e.x.heap(e.st, "ghost:"+name, srt)}
	}
	if sf, ok := e.x.Lib.Specs[name]; ok && len(sf.Params) == 0 {
		return e.applySpec(sf, nil)
	}
	// package-level constant or variable
	if v, ok := e.x.evalGoConst(e.pkg, name); ok {
		return v
	}
	if v, ok := e.x.evalGlobalVar(e, name); ok {
		return v
	}
	e.fail("unknown name %q", name)
	return Val{}
}

func (e *Env) unifyNil(a, b Val) (Val, Val) {
	isNil := func(v Val) bool { return v.Term == "nil" && v.T == types.Typ[types.UntypedNil] }
	conv := func(n Val, o Val) Val {
		switch e.sortOfVal(o) {
		case "Int":
			return Val{T: o.T, Term: "0"}
		case "Iface":
			return Val{T: o.T, Term: "nilI"}
		case "Slice":
			return Val{T: o.T, Term: "nilS"}
		}
		e.fail("nil compared with value of sort %s", e.sortOfVal(o))
		return n
	}
	if isNil(a) && !isNil(b) {
		a = conv(a, b)
	} else if isNil(b) && !isNil(a) {
		b = conv(b, a)
	}
	return a, b
}

func (e *Env) evalBin(n *EBin) Val {
	switch n.Op {
	case "&&", "||", "==>", "<==>":
		a := e.eval(n.X)
		b := e.eval(n.Y)
		if e.sortOfVal(a) != "Bool" || e.sortOfVal(b) != "Bool" {
			e.fail("operands of %s must be boolean", n.Op)
		}
		switch n.Op {
		case "&&":
			return Val{T: tBool, Term: and(a.Term, b.Term)}
		case "||":
			return Val{T: tBool, Term: or(a.Term, b.Term)}
		case "==>":
			return Val{T: tBool, Term: implies(a.Term, b.Term)}
		default:
			return Val{T: tBool, Term: fmt.Sprintf("(= %s %s)", a.Term, b.Term)}
		}
	}
	a := e.eval(n.X)
	b := e.eval(n.Y)
	switch n.Op {
	case "==", "!=":
		a, b = e.unifyNil(a, b)
		sa, sb := e.sortOfVal(a), e.sortOfVal(b)
		if sa != sb {
			e.fail("comparison of different sorts %s and %s", sa, sb)
		}
		var t string
		if sa == "Slice" && (a.Term == "nilS" || b.Term == "nilS") {
			o := a
			if a.Term == "nilS" {
				o = b
			}
			t = fmt.Sprintf("(= (s_base %s) 0)", o.Term)
		} else {
			t = fmt.Sprintf("(= %s %s)", a.Term, b.Term)
		}
		if n.Op == "!=" {
			t = not(t)
		}
		return Val{T: tBool, Term: t}
	case "<", "<=", ">", ">=":
		if e.sortOfVal(a) == "String" {
			op := map[string]string{"<": "str.<", "<=": "str.<="}[n.Op]
			if op == "" {
				e.fail("string comparison %s unsupported", n.Op)
			}
			return Val{T: tBool, Term: fmt.Sprintf("(%s %s %s)", op, a.Term, b.Term)}
		}
		return Val{T: tBool, Term: fmt.Sprintf("(%s %s %s)", n.Op, a.Term, b.Term)}
	case "+":
		if e.sortOfVal(a) == "String" {
			return Val{T: a.T, Term: fmt.Sprintf("(str.++ %s %s)", a.Term, b.Term)}
		}
		return Val{T: a.T, GS: a.GS, Term: fmt.Sprintf("(+ %s %s)", a.Term, b.Term)}
	case "-", "*":
		return Val{T: a.T, GS: a.GS, Term: fmt.Sprintf("(%s %s %s)", n.Op, a.Term, b.Term)}
	case "/":
		return Val{T: a.T, GS: a.GS, Term: goDiv(a.Term, b.Term)}
	case "%":
		return Val{T: a.T, GS: a.GS, Term: goRem(a.Term, b.Term)}
	}
	e.fail("unsupported operator %s", n.Op)
	return Val{}
}

func goDiv(a, b string) string {
	// Go truncates toward zero
	return fmt.Sprintf("(ite (>= %s 0) (div %s %s) (- (div (- %s) %s)))", a, a, b, a, b)
}

func goRem(a, b string) string {
	return fmt.Sprintf("(- %s (* %s %s))", a, b, goDiv(a, b))
}

// fieldOf selects field i of a struct value or through a pointer.
func (e *Env) fieldOf(v Val, i int) Val {
	t := v.T
	if p, ok := t.Underlying().(*types.Pointer); ok {
		st := p.Elem()
		if isStructT(st) {
			l := &Loc{Kind: locHeap, Ref: v.Term, Root: st, Path: []int{i}}
			return e.x.loadLoc(e.st, l)
		}
		e.fail("field selection through pointer to non-struct %s", t)
	}
	if !isStructT(t) {
		e.fail("field selection on non-struct %s", t)
	}
	term, ty := e.x.selectPath(t, v.Term, []int{i})
	return Val{T: ty, Term: term}
}

func (e *Env) evalSel(n *ESel) Val {
	// package-qualified constant / variable?
	if id, ok := n.X.(*EIdent); ok {
		if _, isBound := e.bound[id.Name]; !isBound {
			if _, isName := e.names[id.Name]; !isName {
				if v, ok := e.x.evalGoConst(e.pkg, id.Name+"."+n.Name); ok {
					return v
				}
				if v, ok := e.x.evalGlobalVar(e, id.Name+"."+n.Name); ok {
					return v
				}
			}
		}
	}
	v := e.eval(n.X)
	if v.Tup != nil {
		i, err := strconv.Atoi(n.Name)
		if err != nil || i >= len(v.Tup) {
			e.fail("bad tuple selector .%s", n.Name)
		}
		return v.Tup[i]
	}
	if v.T == nil {
		e.fail("selector .%s on ghost value", n.Name)
	}
	if isTimeType(v.T) {
		switch n.Name {
		case "ns":
			return Val{T: tInt, Term: "(t_ns " + v.Term + ")"}
		case "loc":
			return Val{T: tInt, Term: "(t_loc " + v.Term + ")"}
		}
	}
	obj, path, _ := types.LookupFieldOrMethod(v.T, true, e.x.pkgTypes(e.pkg), n.Name)
	if obj == nil {
		// unexported field of another package: search by name
		obj, path = lookupFieldAnyPkg(v.T, n.Name)
	}
	if _, ok := obj.(*types.Var); !ok || obj == nil {
		e.fail("no field %s in %s", n.Name, v.T)
	}
	cur := v
	for _, i := range path {
		cur = e.fieldOf(cur, i)
	}
	return cur
}

func lookupFieldAnyPkg(t types.Type, name string) (types.Object, []int) {
	if p, ok := t.Underlying().(*types.Pointer); ok {
		t = p.Elem()
	}
	st, ok := t.Underlying().(*types.Struct)
	if !ok {
		return nil, nil
	}
	for i := 0; i < st.NumFields(); i++ {
		if st.Field(i).Name() == name {
			return st.Field(i), []int{i}
		}
	}
	for i := 0; i < st.NumFields(); i++ {
		if st.Field(i).Embedded() {
			if o, p := lookupFieldAnyPkg(st.Field(i).Type(), name); o != nil {
				return o, append([]int{i}, p...)
			}
		}
	}
	return nil, nil
}

func (e *Env) evalIdx(n *EIdx) Val {
	v := e.eval(n.X)
	i := e.eval(n.I)
	if v.T == nil {
		e.fail("index on ghost value")
	}
	if isByteSlice(v.T) {
		return Val{T: types.Typ[types.Uint8], Term: fmt.Sprintf("(str.to_code (str.at %s %s))", v.Term, i.Term)}
	}
	switch u := v.T.Underlying().(type) {
	case *types.Slice:
		l := &Loc{Kind: locElem, Ref: "(s_base " + v.Term + ")", Idx: i.Term, Root: u.Elem()}
		return e.x.loadLoc(e.st, l)
	case *types.Map:
		return e.x.mapLookup(e.st, v, i, false)
	case *types.Basic:
		if u.Info()&types.IsString != 0 {
			return Val{T: types.Typ[types.Uint8], Term: fmt.Sprintf("(str.to_code (str.at %s %s))", v.Term, i.Term)}
		}
	}
	e.fail("cannot index %s", v.T)
	return Val{}
}

// ---------------------------------------------------------------------------
// calls in contracts

func (e *Env) evalCall(n *ECall) Val {
	arg := func(i int) Val {
		if i >= len(n.Args) {
			e.fail("%s: missing argument %d", n.Fun, i)
		}
		return e.eval(n.Args[i])
	}
	b := func(t string) Val { return Val{T: tBool, Term: t} }
	iv := func(t string) Val { return Val{T: tInt, Term: t} }
	sv := func(t string) Val { return Val{T: tString, Term: t} }
	switch n.Fun {
	case "len":
		v := arg(0)
		switch e.sortOfVal(v) {
		case "String":
			return iv("(str.len " + v.Term + ")")
		case "Slice":
			return iv("(s_len " + v.Term + ")")
		case "Int":
			if m, ok := v.T.Underlying().(*types.Map); ok {
				return iv(e.x.mapLen(e.st, m, v.Term))
			}
		}
		e.fail("len of %s", v.T)
	case "cap":
		return iv("(s_cap " + arg(0).Term + ")")
	case "base":
		return iv("(s_base " + arg(0).Term + ")")
	case "fresh":
		// allocated during this activation
		v := arg(0)
		if e.frame == nil {
			e.fail("fresh() outside a function contract")
		}
		switch e.sortOfVal(v) {
		case "Slice":
			return b(fmt.Sprintf("(>= (s_base %s) %s)", v.Term, e.frame.allocIn))
		case "Int":
			return b(fmt.Sprintf("(>= %s %s)", v.Term, e.frame.allocIn))
		}
		e.fail("fresh of %s", v.T)
	case "allocated":
		// reference existed before this state's allocation frontier
		v := arg(0)
		switch e.sortOfVal(v) {
		case "Slice":
			return b(fmt.Sprintf("(< (s_base %s) %s)", v.Term, e.st.alloc))
		case "Iface":
			// an error value: its *HTTPError (if any) exists
			return b(fmt.Sprintf("(< (asHTTP %s) %s)", v.Term, e.st.alloc))
		default:
			return b(fmt.Sprintf("(< %s %s)", v.Term, e.st.alloc))
		}
	case "contains", "strings.Contains":
		return b(fmt.Sprintf("(str.contains %s %s)", arg(0).Term, arg(1).Term))
	case "hasPrefix", "strings.HasPrefix":
		return b(fmt.Sprintf("(str.prefixof %s %s)", arg(1).Term, arg(0).Term))
	case "hasSuffix", "strings.HasSuffix":
		return b(fmt.Sprintf("(str.suffixof %s %s)", arg(1).Term, arg(0).Term))
	case "substr":
		return sv(fmt.Sprintf("(str.substr %s %s %s)", arg(0).Term, arg(1).Term, arg(2).Term))
	case "indexOf":
		return iv(fmt.Sprintf("(str.indexof %s %s 0)", arg(0).Term, arg(1).Term))
	case "replaceAll":
		return sv(fmt.Sprintf("(str.replace_all %s %s %s)", arg(0).Term, arg(1).Term, arg(2).Term))
	case "itoa":
		return sv(fmt.Sprintf("(str.from_int %s)", arg(0).Term))
	case "atoi":
		return iv(fmt.Sprintf("(str.to_int %s)", arg(0).Term))
	case "string", "int", "int64", "bool", "uint":
		v := arg(0)
		t, _ := e.x.resolveType(e.pkg, n.Fun)
		return Val{T: t, Term: v.Term}
	case "has":
		// has(m, k): key present in map
		m := arg(0)
		k := arg(1)
		mt, ok := m.T.Underlying().(*types.Map)
		if !ok {
			e.fail("has() on non-map")
		}
		_, dn := e.x.C.mapHeapNames(mt)
		d := e.x.heap(e.st, dn, fmt.Sprintf("(Array Int (Array %s Bool))", e.x.C.sortOf(mt.Key())))
		return b(fmt.Sprintf("(select (select %s %s) %s)", d, m.Term, k.Term))
	// error algebra
	case "httpCode":
		v := arg(0)
		code := e.x.heap(e.st, e.x.httpCodeHeap(), "(Array Int Int)")
		return iv(fmt.Sprintf("(ite (= (asHTTP %s) 0) (- 1) (select %s (asHTTP %s)))", v.Term, code, v.Term))
	case "isHTTP":
		return b(fmt.Sprintf("(not (= (asHTTP %s) 0))", arg(0).Term))
	case "dynHTTP":
		// dynamic type is *internal.HTTPError
		v := arg(0)
		return b(fmt.Sprintf("(= (i_tag %s) %d)", v.Term, e.x.C.typeID(e.x.httpErrPtrType())))
	case "davErr":
		return b(fmt.Sprintf("(not (= (asDavErr %s) 0))", arg(0).Term))
	case "strHostPath":
		e.x.declFmt()
		return b(fmt.Sprintf("(strHostPath %s)", arg(0).Term))
	case "hexOf":
		e.x.declFmt()
		return sv(fmt.Sprintf("(hexOf %s)", arg(0).Term))
	case "asPathErr":
		t, _ := e.x.resolveType("webdav", "*fs.PathError")
		return Val{T: t, Term: fmt.Sprintf("(asPathErr %s)", arg(0).Term)}
	case "osIsExist", "osIsNotExist":
		return b(fmt.Sprintf("(%s %s)", n.Fun, arg(0).Term))
	case "asLinkErr":
		t, _ := e.x.resolveType("webdav", "*os.LinkError")
		return Val{T: t, Term: fmt.Sprintf("(asLinkErr %s)", arg(0).Term)}
	case "isNotExist", "isExist", "isPerm", "isDeadline", "isNotDir", "hostPath":
		return b(fmt.Sprintf("(%s %s)", n.Fun, arg(0).Term))
	case "errText":
		return sv(fmt.Sprintf("(errText %s)", arg(0).Term))
	// time
	case "ns":
		return iv("(t_ns " + arg(0).Term + ")")
	case "isZeroTime":
		return b("(= (t_ns " + arg(0).Term + ") Z0)")
	case "zeroTime":
		t, _ := e.x.resolveType(e.pkg, "time.Time")
		return Val{T: t, Term: "zeroTime"}
	case "truncSec":
		return iv(fmt.Sprintf("(* 1000000000 (div %s 1000000000))", arg(0).Term))
	case "atoiOk":
		e.x.declAtoi()
		return b(fmt.Sprintf("(atoiOk %s)", arg(0).Term))
	case "atoiVal":
		e.x.declAtoi()
		return iv(fmt.Sprintf("(atoiVal %s)", arg(0).Term))
	case "unquoteOk":
		e.x.declQuote()
		return b(fmt.Sprintf("(unquoteOk %s)", arg(0).Term))
	case "unquoteVal":
		e.x.declQuote()
		return sv(fmt.Sprintf("(unquoteVal %s)", arg(0).Term))
	case "quote":
		e.x.declQuote()
		return sv(fmt.Sprintf("(quote %s)", arg(0).Term))
	case "statusText":
		e.x.C.decl("(declare-fun statusText (Int) String)")
		return sv(fmt.Sprintf("(statusText %s)", arg(0).Term))
	case "timeParseOk":
		e.x.declTime()
		return b(fmt.Sprintf("(timeParseOk %s %s)", arg(0).Term, arg(1).Term))
	case "timeParseNs":
		e.x.declTime()
		return iv(fmt.Sprintf("(timeParseNs %s %s)", arg(0).Term, arg(1).Term))
	case "timeFormat":
		e.x.declTime()
		return sv(fmt.Sprintf("(timeFormat %s %s)", arg(0).Term, arg(1).Term))
	case "wallNs":
		e.x.declTime()
		return iv(fmt.Sprintf("(+ (t_ns %s) (* 1000000000 (zoneOffset (t_loc %s) (t_ns %s))))", arg(0).Term, arg(0).Term, arg(0).Term))
	case "urlParseOk":
		e.x.declURL(e.st)
		return b(fmt.Sprintf("(urlParseOk %s)", arg(0).Term))
	case "urlParsePath":
		e.x.declURL(e.st)
		ut := e.x.urlType()
		return sv(fmt.Sprintf("(%s (urlParseVal %s))", e.x.C.selName(ut, fieldIndex(ut, "Path")), arg(0).Term))
	case "zoneOffset":
		e.x.declTime()
		return iv(fmt.Sprintf("(zoneOffset (t_loc %s) (t_ns %s))", arg(0).Term, arg(0).Term))
	case "dynPtr":
		// dynPtr(x, "*T"): the pointer boxed in interface value x when its dynamic type is *T, else nil
		v := arg(0)
		ts, ok := n.Args[1].(*EStr)
		if !ok {
			e.fail("dynPtr(x, \"*Type\")")
		}
		t, _ := e.x.resolveType(e.pkg, ts.V)
		if _, isPtr := t.Underlying().(*types.Pointer); !isPtr {
			e.fail("dynPtr needs a pointer type")
		}
		return Val{T: t, Term: fmt.Sprintf("(ite (= (i_tag %s) %d) (i_val %s) 0)", v.Term, e.x.C.typeID(t), v.Term)}
	case "lastDecoded":
		// lastDecoded("*T"): the target of the most recent successful RawXMLValue.Decode whose dynamic type is *T
		// (ghost dlLast, indexed by the type tag), nil if there was none
		ts, ok := n.Args[0].(*EStr)
		if !ok {
			e.fail("lastDecoded(\"*Type\")")
		}
		t, _ := e.x.resolveType(e.pkg, ts.V)
		if _, isPtr := t.Underlying().(*types.Pointer); !isPtr {
			e.fail("lastDecoded needs a pointer type")
		}
		g := e.lookup("dlLast")
		id := e.x.C.typeID(t)
		// invariant of the ghost log: its only writer (the contract of RawXMLValue.Decode) stores pointers that exist
		e.st.assume(fmt.Sprintf("(< (i_val (select %s %d)) %s)", g.Term, id, e.st.alloc))
		return Val{T: t, Term: fmt.Sprintf("(ite (= (i_tag (select %s %d)) %d) (i_val (select %s %d)) 0)", g.Term, id, id, g.Term, id)}
	case "dynIs", "dynVal":
		// dynIs(x, "T"): the dynamic type of interface value x is the (non-pointer) type T; dynVal(x, "T"): its value
		v := arg(0)
		ts, ok := n.Args[1].(*EStr)
		if !ok {
			e.fail("%s(x, \"Type\")", n.Fun)
		}
		t, _ := e.x.resolveType(e.pkg, ts.V)
		if n.Fun == "dynIs" {
			return b(fmt.Sprintf("(= (i_tag %s) %d)", v.Term, e.x.C.typeID(t)))
		}
		if s := e.x.C.sortOf(t); s != "Int" {
			_, unbox := e.x.C.boxFuncs(s)
			return Val{T: t, Term: fmt.Sprintf("(%s (i_val %s))", unbox, v.Term)}
		}
		return Val{T: t, Term: fmt.Sprintf("(i_val %s)", v.Term)}
	case "decoded", "decodedOk":
		// decoded(src, "T"): what a decoder with source src yields for target type T (see decodes)
		v := arg(0)
		ts, ok := n.Args[1].(*EStr)
		if !ok {
			e.fail("%s(src, \"Type\")", n.Fun)
		}
		t, _ := e.x.resolveType(e.pkg, ts.V)
		okF, valF := e.x.decodedFuncs(t, e.sortOfVal(v))
		if n.Fun == "decodedOk" {
			return b(fmt.Sprintf("(%s %s)", okF, v.Term))
		}
		return Val{T: t, Term: fmt.Sprintf("(%s %s)", valF, v.Term)}
	case "seen":
		// seen(k): key k has been produced by the enclosing range-over-map loop in an iteration that is complete
		if e.loop == nil || e.frame == nil {
			e.fail("seen() outside a loop invariant")
		}
		rg := loopSeenRange(e.loop)
		if rg == nil {
			e.fail("seen() in a loop that does not range over a map")
		}
		sv, ok := e.st.heaps[seenKey(e.frame, rg)]
		if !ok {
			e.fail("seen(): the map range has not started")
		}
		return b(fmt.Sprintf("(select %s %s)", sv, arg(0).Term))
	case "implies":
		return b(implies(arg(0).Term, arg(1).Term))
	case "smt":
		// escape hatch: smt("Sort", "(raw term with $0 $1 ...)", args...)
		srt, ok1 := n.Args[0].(*EStr)
		raw, ok2 := n.Args[1].(*EStr)
		if !ok1 || !ok2 {
			e.fail("smt(sort, term, args...) needs string literals")
		}
		t := raw.V
		for i := len(n.Args) - 1; i >= 2; i-- {
			t = strings.ReplaceAll(t, fmt.Sprintf("$%d", i-2), e.eval(n.Args[i]).Term)
		}
		// heap references: ${H name sort}
		gt, gs := e.x.resolveType(e.pkg, srt.V)
		return Val{T: gt, GS: gs, Term: t}
	}
	if sf, ok := e.x.Lib.Specs[n.Fun]; ok {
		var args []Val
		for i := range n.Args {
			args = append(args, arg(i))
		}
		return e.applySpec(sf, args)
	}
	if v, ok := e.x.applyAlias(e, n.Fun, n.Args); ok {
		return v
	}
	// raw SMT function declared in an smt prelude: name(args) with result sort given by "$Sort:name"?
	if rs, ok := e.x.rawFuncs[n.Fun]; ok {
		var ts []string
		for i := range n.Args {
			ts = append(ts, arg(i).Term)
		}
		term := n.Fun
		if len(ts) > 0 {
			term = "(" + n.Fun + " " + strings.Join(ts, " ") + ")"
		}
		t, gs := e.x.resolveType(e.pkg, rs)
		return Val{T: t, GS: gs, Term: term}
	}
	e.fail("unknown function %q in contract", n.Fun)
	return Val{}
}

// ---------------------------------------------------------------------------
// spec functions

type specInfo struct {
	heaps   []string // heap names read (transitively), sorted
	declared bool
	busy    bool
}

// applySpec: non-recursive spec functions are expanded in place; recursive ones become
// uninterpreted applications (with the heaps they read as extra arguments) plus one
// instance of their defining equation per syntactic application (DESIGN 2.2).
func (e *Env) applySpec(sf *SpecFunc, args []Val) Val {
	if len(args) != len(sf.Params) {
		e.fail("spec %s: expected %d arguments, got %d", sf.Name, len(sf.Params), len(args))
	}
	rt, rgs := e.x.resolveType(sf.Pkg, sf.Result)
	if sf.Body == nil {
		// uninterpreted
		var ps, ts []string
		for i, p := range sf.Params {
			pt, pgs := e.x.resolveType(sf.Pkg, p.Type)
			s := pgs
			if s == "" {
				s = e.x.C.sortOf(pt)
			}
			ps = append(ps, s)
			ts = append(ts, e.coerce(args[i], pt, pgs).Term)
		}
		rs := rgs
		if rs == "" {
			rs = e.x.C.sortOf(rt)
		}
		name := "spec_" + sf.Name
		e.x.C.decl(fmt.Sprintf("(declare-fun %s (%s) %s)", name, strings.Join(ps, " "), rs))
		term := name
		if len(ts) > 0 {
			term = "(" + name + " " + strings.Join(ts, " ") + ")"
		}
		return Val{T: rt, GS: rgs, Term: term}
	}
	if !e.x.specRecursive(sf) && !sf.Opaque {
		c := e.child()
		c.pkg = sf.Pkg
		c.bound = map[string]Val{}
		c.names = map[string]Val{}
		c.onames = nil
		for i, p := range sf.Params {
			pt, pgs := e.x.resolveType(sf.Pkg, p.Type)
			c.bound[p.Name] = e.coerce(args[i], pt, pgs)
		}
		v := c.eval(sf.Body)
		v = e.coerce(v, rt, rgs)
		return v
	}
	// recursive
	info := e.x.specHeaps(sf)
	var ps, ts []string
	var cargs []Val
	for i, p := range sf.Params {
		pt, pgs := e.x.resolveType(sf.Pkg, p.Type)
		s := pgs
		if s == "" {
			s = e.x.C.sortOf(pt)
		}
		ps = append(ps, s)
		ca := e.coerce(args[i], pt, pgs)
		cargs = append(cargs, ca)
		ts = append(ts, ca.Term)
	}
	for _, h := range info.heaps {
		ps = append(ps, e.x.heapSort[h])
		ts = append(ts, e.x.heap(e.st, h, e.x.heapSort[h]))
	}
	rs := rgs
	if rs == "" {
		rs = e.x.C.sortOf(rt)
	}
	name := "spec_" + sf.Name
	e.x.C.decl(fmt.Sprintf("(declare-fun %s (%s) %s)", name, strings.Join(ps, " "), rs))
	app := "(" + name + " " + strings.Join(ts, " ") + ")"
	if e.noUnfold == 0 && e.unfold != nil && (!sf.Opaque || e.x.reveal[sf.Name] || e.x.revealAll) {
		c := e.child()
		c.pkg = sf.Pkg
		c.bound = map[string]Val{}
		for k, v := range e.bound {
			c.bound[k] = v // bound variables of enclosing quantifiers stay visible through the arguments only
		}
		c.names = map[string]Val{}
		c.onames = nil
		for i, p := range sf.Params {
			c.bound[p.Name] = cargs[i]
		}
		if e.x.specRecursive(sf) {
			c.noUnfold = 1
		}
		body := c.eval(sf.Body)
		eq := fmt.Sprintf("(= %s %s)", app, body.Term)
		var used []string
		for _, qv := range e.qvars {
			name := qv[1:strings.IndexByte(qv, ' ')]
			if containsSym(app, name) {
				used = append(used, qv)
			}
		}
		if len(used) > 0 && len(used) < len(e.qvars) {
			eq = fmt.Sprintf("(forall (%s) (! %s :pattern (%s)))", strings.Join(used, " "), eq, app)
			// remaining bound variables cannot occur free in a top-level assertion
			for _, qv := range e.qvars {
				name := qv[1:strings.IndexByte(qv, ' ')]
				if !containsSym(app, name) && containsSym(eq, name) {
					eq = ""
				}
			}
			if eq != "" {
				*e.unfold = append(*e.unfold, eq)
			}
		} else if len(used) == 0 && len(e.qvars) > 0 {
			if !anySym(eq, e.qvars) {
				*e.unfold = append(*e.unfold, eq)
			}
		} else if len(e.qvars) > 0 {
			eq = fmt.Sprintf("(forall (%s) (! %s :pattern (%s)))", strings.Join(e.qvars, " "), eq, app)
			*e.unfold = append(*e.unfold, eq)
		} else {
			*e.unfold = append(*e.unfold, eq)
		}
	}
	return Val{T: rt, GS: rgs, Term: app}
}

func (e *Env) coerce(v Val, t types.Type, gs string) Val {
	if v.T == types.Typ[types.UntypedNil] && v.Term == "nil" {
		s := gs
		if s == "" {
			s = e.x.C.sortOf(t)
		}
		switch s {
		case "Int":
			return Val{T: t, Term: "0"}
		case "Iface":
			return Val{T: t, Term: "nilI"}
		case "Slice":
			return Val{T: t, Term: "nilS"}
		}
	}
	want := gs
	if want == "" {
		want = e.x.C.sortOf(t)
	}
	if got := e.sortOfVal(v); got != want {
		e.fail("sort mismatch: have %s, want %s", got, want)
	}
	return Val{T: t, GS: gs, Term: v.Term, Tup: v.Tup}
}

// specRecursive: does sf (transitively) call itself?
func (x *Exec) specRecursive(sf *SpecFunc) bool {
	if v, ok := x.specRec[sf.Name]; ok {
		return v
	}
	seen := map[string]bool{}
	var reach func(name string) bool
	reach = func(name string) bool {
		s := x.Lib.Specs[name]
		if s == nil || s.Body == nil {
			return false
		}
		found := false
		walkExpr(s.Body, func(ex Expr) {
			if c, ok := ex.(*ECall); ok {
				if c.Fun == sf.Name {
					found = true
				} else if !seen[c.Fun] {
					seen[c.Fun] = true
					if reach(c.Fun) {
						found = true
					}
				}
			}
			if id, ok := ex.(*EIdent); ok && id.Name == sf.Name {
				found = true
			}
		})
		return found
	}
	r := reach(sf.Name)
	x.specRec[sf.Name] = r
	return r
}

func walkExpr(ex Expr, f func(Expr)) {
	if ex == nil {
		return
	}
	f(ex)
	switch n := ex.(type) {
	case *EUn:
		walkExpr(n.X, f)
	case *EBin:
		walkExpr(n.X, f)
		walkExpr(n.Y, f)
	case *ESel:
		walkExpr(n.X, f)
	case *EIdx:
		walkExpr(n.X, f)
		walkExpr(n.I, f)
	case *ESlice:
		walkExpr(n.X, f)
		walkExpr(n.Lo, f)
		walkExpr(n.Hi, f)
	case *ECall:
		for _, a := range n.Args {
			walkExpr(a, f)
		}
	case *EOld:
		walkExpr(n.X, f)
	case *EQuant:
		walkExpr(n.Body, f)
	case *ECond:
		walkExpr(n.C, f)
		walkExpr(n.A, f)
		walkExpr(n.B, f)
	case *ELet:
		walkExpr(n.V, f)
		walkExpr(n.Body, f)
	}
}

// specHeaps discovers (by a dry evaluation) which heaps a recursive spec function reads.
func (x *Exec) specHeaps(sf *SpecFunc) *specInfo {
	if info, ok := x.specInfo[sf.Name]; ok {
		return info
	}
	info := &specInfo{}
	x.specInfo[sf.Name] = info
	// iterate: heaps of mutually recursive partners are merged
	for iter := 0; iter < 4; iter++ {
		before := len(info.heaps)
		scratch := newState()
		scratch.alloc = "0"
		rec := map[string]bool{}
		x.recorders = append(x.recorders, rec)
		env := &Env{x: x, st: scratch, names: map[string]Val{}, bound: map[string]Val{}, pkg: sf.Pkg, noUnfold: 1}
		for i, p := range sf.Params {
			pt, pgs := x.resolveType(sf.Pkg, p.Type)
			s := pgs
			if s == "" {
				s = x.C.sortOf(pt)
			}
			env.bound[p.Name] = Val{T: pt, GS: pgs, Term: fmt.Sprintf("dry%d", i)}
			_ = s
		}
		func() {
			defer func() {
				if r := recover(); r != nil {
					if ee, ok := r.(evalError); ok {
						x.errs = append(x.errs, fmt.Sprintf("spec %s: %s", sf.Name, ee.msg))
						return
					}
					panic(r)
				}
			}()
			x.quiet++
			defer func() { x.quiet-- }()
			env.eval(sf.Body)
		}()
		x.recorders = x.recorders[:len(x.recorders)-1]
		set := map[string]bool{}
		for _, h := range info.heaps {
			set[h] = true
		}
		for h := range rec {
			set[h] = true
		}
		// merge partner heaps
		walkExpr(sf.Body, func(ex Expr) {
			if c, ok := ex.(*ECall); ok {
				if o := x.Lib.Specs[c.Fun]; o != nil && o != sf && x.specRecursive(o) {
					if oi, ok := x.specInfo[c.Fun]; ok {
						for _, h := range oi.heaps {
							set[h] = true
						}
					}
				}
			}
		})
		info.heaps = info.heaps[:0]
		for h := range set {
			info.heaps = append(info.heaps, h)
		}
		sort.Strings(info.heaps)
		// make partners consistent
		walkExpr(sf.Body, func(ex Expr) {
			if c, ok := ex.(*ECall); ok {
				if o := x.Lib.Specs[c.Fun]; o != nil && o != sf && x.specRecursive(o) {
					if _, ok := x.specInfo[c.Fun]; !ok {
						x.specHeaps(o)
					}
					oi := x.specInfo[c.Fun]
					m := map[string]bool{}
					for _, h := range oi.heaps {
						m[h] = true
					}
					for _, h := range info.heaps {
						m[h] = true
					}
					oi.heaps = oi.heaps[:0]
					for h := range m {
						oi.heaps = append(oi.heaps, h)
					}
					sort.Strings(oi.heaps)
					info.heaps = append([]string(nil), oi.heaps...)
				}
			}
		})
		if len(info.heaps) == before && iter > 0 {
			break
		}
	}
	return info
}

// ---------------------------------------------------------------------------
// Go-level name resolution

func (x *Exec) pkgTypes(short string) *types.Package {
	for _, p := range x.P.Pkgs {
		if shortPkg(p.PkgPath) == short {
			return p.Types
		}
	}
	return nil
}

func (x *Exec) goEval(short, expr string) (types.TypeAndValue, bool) {
	for _, p := range x.P.Pkgs {
		if shortPkg(p.PkgPath) != short {
			continue
		}
		for _, f := range p.Syntax {
			pos := f.End() - 1
			if len(f.Decls) > 0 {
				pos = f.Decls[len(f.Decls)-1].Pos()
			}
			tv, err := types.Eval(p.Fset, p.Types, pos, expr)
			if err == nil {
				return tv, true
			}
		}
		tv, err := types.Eval(p.Fset, p.Types, token.NoPos, expr)
		if err == nil {
			return tv, true
		}
	}
	return types.TypeAndValue{}, false
}

// resolveType: "$Sort" is a raw SMT sort; everything else is a Go type expression evaluated in the package.
func (x *Exec) resolveType(short, text string) (types.Type, string) {
	text = strings.TrimSpace(text)
	if strings.HasPrefix(text, "$") {
		return nil, text[1:]
	}
	key := short + "|" + text
	if t, ok := x.typeCache[key]; ok {
		return t, ""
	}
	var t types.Type
	switch text {
	case "int":
		t = tInt
	case "bool":
		t = tBool
	case "string":
		t = tString
	case "error":
		t = tError
	case "int64":
		t = types.Typ[types.Int64]
	case "uint":
		t = types.Typ[types.Uint]
	default:
		tv, ok := x.goEval(short, text)
		if !ok || !tv.IsType() {
			// try all packages
			for _, s := range []string{"webdav", "internal", "caldav", "carddav"} {
				if tv2, ok2 := x.goEval(s, text); ok2 && tv2.IsType() {
					tv, ok = tv2, true
					break
				}
			}
			if !ok || !tv.IsType() {
				panic(evalError{fmt.Sprintf("cannot resolve type %q in package %s", text, short)})
			}
		}
		t = tv.Type
	}
	x.typeCache[key] = t
	return t, ""
}

func (x *Exec) evalGoConst(short, expr string) (Val, bool) {
	tv, ok := x.goEval(short, expr)
	if !ok || tv.Value == nil {
		return Val{}, false
	}
	switch tv.Value.Kind() {
	case constant.Bool:
		return Val{T: tv.Type, Term: strconv.FormatBool(constant.BoolVal(tv.Value))}, true
	case constant.String:
		return Val{T: tv.Type, Term: smtString(constant.StringVal(tv.Value))}, true
	case constant.Int:
		v, _ := constant.Int64Val(tv.Value)
		return Val{T: tv.Type, Term: smtInt(v)}, true
	}
	return Val{}, false
}

// evalGlobalVar: package-level variable of /repo or a dependency, read from its global cell.
func (x *Exec) evalGlobalVar(e *Env, expr string) (Val, bool) {
	tv, ok := x.goEval(e.pkg, expr)
	if !ok || tv.Value != nil || tv.IsType() || !tv.Addressable() {
		return Val{}, false
	}
	// find the object
	name := expr
	pkgPath := ""
	if i := strings.IndexByte(expr, '.'); i >= 0 {
		// imported package: resolve its path
		for _, p := range x.P.Pkgs {
			if shortPkg(p.PkgPath) != e.pkg {
				continue
			}
			for _, imp := range p.Types.Imports() {
				if imp.Name() == expr[:i] {
					pkgPath = imp.Path()
				}
			}
		}
		name = expr[i+1:]
	} else {
		for _, p := range x.P.Pkgs {
			if shortPkg(p.PkgPath) == e.pkg {
				pkgPath = p.PkgPath
			}
		}
	}
	if pkgPath == "" {
		return Val{}, false
	}
	l := &Loc{Kind: locGlobal, Name: pkgPath + "." + name, Root: tv.Type}
	return x.loadLoc(e.st, l), true
}

func containsSym(term, name string) bool {
	for i := 0; i+len(name) <= len(term); i++ {
		if term[i:i+len(name)] == name {
			before := i == 0 || term[i-1] == ' ' || term[i-1] == '('
			after := i+len(name) == len(term) || term[i+len(name)] == ' ' || term[i+len(name)] == ')'
			if before && after {
				return true
			}
		}
	}
	return false
}

func anySym(term string, qvars []string) bool {
	for _, qv := range qvars {
		if containsSym(term, qv[1:strings.IndexByte(qv, ' ')]) {
			return true
		}
	}
	return false
}
