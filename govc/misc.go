package main

import (
	"fmt"
	"go/ast"
	"go/constant"
	"go/types"
	"strings"

	"golang.org/x/tools/go/packages"
)

// verifyLemmas proves standalone lemmas (closed contract formulas over spec functions).
func verifyLemmas(P *Program, L *Library, labels []string, opt solveOpts) []*FuncResult {
	var out []*FuncResult
	for _, lab := range labels {
		fr := &FuncResult{Key: "lemma"}
		var cl *Clause
		for _, c := range L.Lemmas {
			if c.Label == lab {
				cl = c
			}
		}
		if cl == nil {
			fr.Err = "lemma " + lab + " not found"
			out = append(out, fr)
			continue
		}
		x := newExec(P, L)
		x.closures = map[string]*closureInfo{}
		x.known = map[string]string{}
		x.curFn = "lemma"
		x.revealAll = true
		lopt := L.LemmaOpts[lab]
		if lopt != nil && lopt.Reveal != nil {
			x.revealAll = false
			x.reveal = lopt.Reveal
		}
		st := newState()
		st.alloc = "1"
		func() {
			defer func() {
				if r := recover(); r != nil {
					fr.Err = fmt.Sprintf("lemma %s: %v", lab, r)
				}
			}()
			var unf []string
			// separately proved lemmas may be used as hypotheses
			if lopt != nil {
				for _, u := range lopt.Using {
					var ucl *Clause
					for _, c := range L.Lemmas {
						if c.Label == u {
							ucl = c
						}
					}
					if ucl == nil {
						fr.Err = fmt.Sprintf("lemma %s: unknown lemma %s in using", lab, u)
						return
					}
					var uunf []string
					uenv := &Env{x: x, st: st, names: map[string]Val{}, bound: map[string]Val{}, pkg: L.AxPkg[ucl], unfold: &uunf}
					ut, err := uenv.evalBool(ucl.Expr)
					if err != nil {
						fr.Err = fmt.Sprintf("lemma %s: using %s: %v", lab, u, err)
						return
					}
					st.assume(ut)
					for _, e := range uunf {
						st.assume(e)
					}
				}
			}
			env := &Env{x: x, st: st, names: map[string]Val{}, bound: map[string]Val{}, pkg: L.AxPkg[cl], unfold: &unf}
			t, err := env.evalBool(cl.Expr)
			if err != nil {
				fr.Err = fmt.Sprintf("lemma %s: %v", lab, err)
				return
			}
			x.emit(st, lab, "lemma", t, unf, 0)
		}()
		fr.Obls = x.obls
		fr.Prelude = x.prelude()
		fr.Used = sortedKeys(x.C.used)
		solveAll(fr.Prelude, fr.Obls, opt)
		out = append(out, fr)
	}
	return out
}

// globalInit asserts the initial value of a package-level variable whose initializer is a
// composite literal of constants (e.g. xml.Name{Namespace, "resourcetype"}).
func (x *Exec) globalInit(heapName, sym string) {
	// sentinel errors of the standard library: leaves that match only themselves and mention no host path
	sentinels := map[string]string{"G_os_ErrExist": "isExist", "G_io_fs_ErrExist": "isExist", "G_os_ErrNotExist": "isNotExist", "G_io_fs_ErrNotExist": "isNotExist",
		"G_os_ErrPermission": "isPerm", "G_io_fs_ErrPermission": "isPerm", "G_os_ErrDeadlineExceeded": "isDeadline", "G_path_filepath_SkipDir": "", "G_io_fs_SkipDir": "", "G_io_EOF": ""}
	if own, ok := sentinels[heapName]; ok {
		facts := []string{fmt.Sprintf("(not (= %s nilI))", sym), fmt.Sprintf("(not (hostPath %s))", sym), obsNone(sym, own)}
		if own != "" {
			facts = append(facts, fmt.Sprintf("(%s %s)", own, sym))
		}
		facts = append(facts, fmt.Sprintf("(= (osIsExist %s) %v)", sym, own == "isExist"), fmt.Sprintf("(= (osIsNotExist %s) %v)", sym, own == "isNotExist"))
		x.C.decl("(assert (and " + strings.Join(facts, " ") + "))")
		x.C.used["T-errors: sentinel "+strings.TrimPrefix(heapName, "G_")] = true
		return
	}
	var found *packages.Package
	var spec *ast.ValueSpec
	var idx int
	packages.Visit(x.P.Pkgs, nil, func(p *packages.Package) {
		if found != nil || p.Types == nil {
			return
		}
		prefix := "G_" + mangle(p.PkgPath+".")
		if !strings.HasPrefix(heapName, prefix) {
			return
		}
		name := strings.TrimPrefix(heapName, prefix)
		obj := p.Types.Scope().Lookup(name)
		if obj == nil || mangle(p.PkgPath+"."+name) != strings.TrimPrefix(heapName, "G_") {
			return
		}
		for _, f := range p.Syntax {
			for _, d := range f.Decls {
				gd, ok := d.(*ast.GenDecl)
				if !ok {
					continue
				}
				for _, s := range gd.Specs {
					vs, ok := s.(*ast.ValueSpec)
					if !ok {
						continue
					}
					for i, n := range vs.Names {
						if n.Name == name && len(vs.Values) == len(vs.Names) {
							found, spec, idx = p, vs, i
						}
					}
				}
			}
		}
	})
	if found == nil {
		return
	}
	term, ok := x.constExprTerm(found, spec.Values[idx])
	if !ok {
		return
	}
	x.C.decl(fmt.Sprintf("(assert (= %s %s))", sym, term))
	x.C.used["globals keep their initial value: "+strings.TrimPrefix(heapName, "G_")] = true
}

func (x *Exec) constExprTerm(p *packages.Package, e ast.Expr) (string, bool) {
	tv, ok := p.TypesInfo.Types[e]
	if !ok {
		return "", false
	}
	if tv.Value != nil {
		switch tv.Value.Kind() {
		case constant.String:
			return smtString(constant.StringVal(tv.Value)), true
		case constant.Int:
			v, _ := constant.Int64Val(tv.Value)
			return smtInt(v), true
		case constant.Bool:
			if constant.BoolVal(tv.Value) {
				return "true", true
			}
			return "false", true
		}
		return "", false
	}
	cl, ok := e.(*ast.CompositeLit)
	if !ok {
		return "", false
	}
	st, ok := tv.Type.Underlying().(*types.Struct)
	if !ok || isTimeType(tv.Type) {
		return "", false
	}
	args := make([]string, st.NumFields())
	for i := range args {
		args[i] = x.C.zero(st.Field(i).Type())
	}
	for i, el := range cl.Elts {
		if kv, ok := el.(*ast.KeyValueExpr); ok {
			id, ok := kv.Key.(*ast.Ident)
			if !ok {
				return "", false
			}
			t, ok := x.constExprTerm(p, kv.Value)
			if !ok {
				return "", false
			}
			args[fieldIndex(tv.Type, id.Name)] = t
		} else {
			t, ok := x.constExprTerm(p, el)
			if !ok {
				return "", false
			}
			args[i] = t
		}
	}
	return x.C.mkStruct(tv.Type, args), true
}

