package main

// Schema obligations (DESIGN section 6, C08/C09): the expected XML namespace, local name and kind
// (attribute / element / character data / any) of every field of every wire struct is stated in
// /verif/specs/schema_<pkg>.json from the RFC text; this file compares that statement with the struct
// tags of /repo's current source. Discharged by comparison (no SMT): its own obligation class
// ("schema"), one obligation per wire struct.

import (
	"encoding/json"
	"fmt"
	"go/types"
	"os"
	"path/filepath"
	"reflect"
	"sort"
	"strings"
)

type schemaField struct {
	Name      string `json:"name"` // "[namespace ]local"; "" for chardata/any
	Kind      string `json:"kind"` // element | attr | chardata | any | xmlname | innerxml | ignored
	OmitEmpty *bool  `json:"omitempty,omitempty"`
}

type schemaStruct struct {
	XMLName string                 `json:"xmlname"` // "namespace local"
	Fields  map[string]schemaField `json:"fields"`
	Ref     string                 `json:"rfc,omitempty"`
	Order   []string               `json:"order,omitempty"` // element fields whose relative order the RFC content model fixes
}

func parseXMLTag(tag string, fieldName string) schemaField {
	st := reflect.StructTag(tag)
	v, ok := st.Lookup("xml")
	f := schemaField{Kind: "element", Name: fieldName}
	if !ok {
		return f
	}
	parts := strings.Split(v, ",")
	if parts[0] == "-" {
		f.Kind = "ignored"
		return f
	}
	if parts[0] != "" {
		f.Name = parts[0]
	}
	om := false
	for _, p := range parts[1:] {
		switch p {
		case "attr":
			f.Kind = "attr"
		case "chardata":
			f.Kind = "chardata"
			f.Name = ""
		case "any":
			f.Kind = "any"
			f.Name = ""
		case "innerxml":
			f.Kind = "innerxml"
			f.Name = ""
		case "omitempty":
			om = true
		}
	}
	f.OmitEmpty = &om
	return f
}

func checkSchema(P *Program, items []string) []*FuncResult {
	var out []*FuncResult
	for _, sp := range items {
		fr := &FuncResult{Key: "schema:" + sp}
		out = append(out, fr)
		var want map[string]schemaStruct
		path := filepath.Join(verifDir, "specs", "schema_"+sp+".json")
		if err := loadJSON(path, &want); err != nil {
			fr.Err = fmt.Sprintf("schema %s: %v", sp, err)
			continue
		}
		var tp *types.Package
		for _, p := range P.Pkgs {
			if shortPkg(p.PkgPath) == sp {
				tp = p.Types
			}
		}
		if tp == nil {
			fr.Err = "schema: package " + sp + " not loaded"
			continue
		}
		var names []string
		for n := range want {
			names = append(names, n)
		}
		sort.Strings(names)
		for _, n := range names {
			w := want[n]
			o := &Obligation{Fn: "schema:" + sp, Label: n, Kind: "schema", Goal: "struct tags equal the RFC schema", Backend: "syntactic-comparison"}
			fr.Obls = append(fr.Obls, o)
			var diffs []string
			obj := tp.Scope().Lookup(n)
			if obj == nil {
				diffs = append(diffs, "type not found")
			} else if st, ok := obj.Type().Underlying().(*types.Struct); !ok {
				diffs = append(diffs, "not a struct")
			} else {
				seen := map[string]bool{}
				for i := 0; i < st.NumFields(); i++ {
					fn := st.Field(i).Name()
					got := parseXMLTag(st.Tag(i), fn)
					seen[fn] = true
					if fn == "XMLName" {
						if got.Name != w.XMLName {
							diffs = append(diffs, fmt.Sprintf("XMLName: have %q, RFC %q", got.Name, w.XMLName))
						}
						continue
					}
					exp, ok := w.Fields[fn]
					if !ok {
						diffs = append(diffs, fmt.Sprintf("field %s (%s %q) is not in the RFC schema statement", fn, got.Kind, got.Name))
						continue
					}
					if exp.Kind != got.Kind || exp.Name != got.Name {
						diffs = append(diffs, fmt.Sprintf("field %s: have %s %q, RFC %s %q", fn, got.Kind, got.Name, exp.Kind, exp.Name))
					}
					if exp.OmitEmpty != nil && got.OmitEmpty != nil && *exp.OmitEmpty != *got.OmitEmpty {
						diffs = append(diffs, fmt.Sprintf("field %s: omitempty have %v, required %v", fn, *got.OmitEmpty, *exp.OmitEmpty))
					}
				}
				// relative order of child elements (encoding/xml emits fields in declaration order)
				pos := map[string]int{}
				for i := 0; i < st.NumFields(); i++ {
					pos[st.Field(i).Name()] = i
				}
				for k := 1; k < len(w.Order); k++ {
					a, b := w.Order[k-1], w.Order[k]
					if pa, ok := pos[a]; ok {
						if pb, ok := pos[b]; ok && pa > pb {
							diffs = append(diffs, fmt.Sprintf("child order: %s must precede %s", a, b))
						}
					}
				}
				if w.XMLName != "" && !seen["XMLName"] {
					diffs = append(diffs, "no XMLName field")
				}
				for fn := range w.Fields {
					if !seen[fn] {
						diffs = append(diffs, fmt.Sprintf("field %s of the RFC schema statement is missing", fn))
					}
				}
			}
			if len(diffs) == 0 {
				o.Result = "unsat"
			} else {
				sort.Strings(diffs)
				o.Result = "sat"
				o.Output = strings.Join(diffs, "; ")
			}
		}
	}
	return out
}

// cmdSchemaDraft prints the schema of a package as the tags currently state it (a starting point that
// must be reviewed against the RFC before it is committed as the independent statement).
func cmdSchemaDraft(args []string) {
	P, err := loadProgram()
	if err != nil {
		fmt.Fprintln(os.Stderr, err)
		os.Exit(3)
	}
	out := map[string]schemaStruct{}
	for _, p := range P.Pkgs {
		if shortPkg(p.PkgPath) != args[0] {
			continue
		}
		for _, n := range p.Types.Scope().Names() {
			st, ok := p.Types.Scope().Lookup(n).Type().Underlying().(*types.Struct)
			if !ok {
				continue
			}
			if _, isType := p.Types.Scope().Lookup(n).(*types.TypeName); !isType {
				continue
			}
			s := schemaStruct{Fields: map[string]schemaField{}}
			has := false
			for i := 0; i < st.NumFields(); i++ {
				f := parseXMLTag(st.Tag(i), st.Field(i).Name())
				if st.Field(i).Name() == "XMLName" {
					s.XMLName = f.Name
					has = true
					continue
				}
				s.Fields[st.Field(i).Name()] = f
			}
			if has {
				out[n] = s
			}
		}
	}
	data, _ := json.MarshalIndent(out, "", " ")
	fmt.Println(string(data))
}
