package main

// Schema obligations (DESIGN section 6, C08/C09): the expected XML namespace, local name and kind
// (attribute / element / character data / any) of every field of every wire struct is stated in
// /verif/specs/schema_<pkg>.json from the RFC text; this file compares that statement with the struct
// tags of /repo's current source. Discharged by comparison (no SMT): its own obligation class
// ("schema"), one obligation per wire struct.

import (
	"encoding/json"
	"fmt"
	"go/types"
	"os"
	"path/filepath"
	"reflect"
	"sort"
	"strings"
)

type schemaField struct {
	Name      string `json:"name"` // "[namespace ]local"; "" for chardata/any
	Kind      string `json:"kind"` // element | attr | chardata | any | xmlname | innerxml | ignored
	OmitEmpty *bool  `json:"omitempty,omitempty"`
	// lexical space the RFC gives the value: "unsigned" = a non-negative integer, so the Go field must be of an unsigned
	// integer type (encoding/xml then refuses a sign or a non-digit with an error, T-xml / strconv.ParseUint)
	Lexical string `json:"lexical,omitempty"`
}

type schemaStruct struct {
	XMLName string                 `json:"xmlname"` // "namespace local"
	Fields  map[string]schemaField `json:"fields"`
	Ref     string                 `json:"rfc,omitempty"`
	Order   []string               `json:"order,omitempty"` // element fields whose relative order the RFC content model fixes
}

func parseXMLTag(tag string, fieldName string) schemaField {
	st := reflect.StructTag(tag)
	v, ok := st.Lookup("xml")
	f := schemaField{Kind: "element", Name: fieldName}
	if !ok {
		return f
	}
	parts := strings.Split(v, ",")
	if parts[0] == "-" {
		f.Kind = "ignored"
		return f
	}
	if parts[0] != "" {
		f.Name = parts[0]
	}
	om := false
	for _, p := range parts[1:] {
		switch p {
		case "attr":
			f.Kind = "attr"
		case "chardata":
			f.Kind = "chardata"
			f.Name = ""
		case "any":
			f.Kind = "any"
			f.Name = ""
		case "innerxml":
			f.Kind = "innerxml"
			f.Name = ""
		case "omitempty":
			om = true
		}
	}
	f.OmitEmpty = &om
	return f
}

func checkSchema(P *Program, items []string) []*FuncResult {
	var out []*FuncResult
	for _, sp := range items {
		fr := &FuncResult{Key: "schema:" + sp}
		out = append(out, fr)
		var want map[string]schemaStruct
		path := filepath.Join(verifDir, "specs", "schema_"+sp+".json")
		if err := loadJSON(path, &want); err != nil {
			fr.Err = fmt.Sprintf("schema %s: %v", sp, err)
			continue
		}
		var tp *types.Package
		for _, p := range P.Pkgs {
			if shortPkg(p.PkgPath) == sp {
				tp = p.Types
			}
		}
		if tp == nil {
			fr.Err = "schema: package " + sp + " not loaded"
			continue
		}
		var names []string
		for n := range want {
			names = append(names, n)
		}
		sort.Strings(names)
		for _, n := range names {
			w := want[n]
			o := &Obligation{Fn: "schema:" + sp, Label: n, Kind: "schema", Goal: "struct tags equal the RFC schema", Backend: "syntactic-comparison"}
			fr.Obls = append(fr.Obls, o)
			var diffs []string
			obj := tp.Scope().Lookup(n)
			if obj == nil {
				diffs = append(diffs, "type not found")
			} else if st, ok := obj.Type().Underlying().(*types.Struct); !ok {
				diffs = append(diffs, "not a struct")
			} else {
				seen := map[string]bool{}
				for i := 0; i < st.NumFields(); i++ {
					fn := st.Field(i).Name()
					got := parseXMLTag(st.Tag(i), fn)
					seen[fn] = true
					if fn == "XMLName" {
						if got.Name != w.XMLName {
							diffs = append(diffs, fmt.Sprintf("XMLName: have %q, RFC %q", got.Name, w.XMLName))
						}
						continue
					}
					exp, ok := w.Fields[fn]
					if !ok {
						diffs = append(diffs, fmt.Sprintf("field %s (%s %q) is not in the RFC schema statement", fn, got.Kind, got.Name))
						continue
					}
					if exp.Kind != got.Kind || exp.Name != got.Name {
						diffs = append(diffs, fmt.Sprintf("field %s: have %s %q, RFC %s %q", fn, got.Kind, got.Name, exp.Kind, exp.Name))
					}
					if exp.Lexical == "unsigned" {
						if b, ok := st.Field(i).Type().Underlying().(*types.Basic); !ok || b.Info()&types.IsUnsigned == 0 {
							diffs = append(diffs, fmt.Sprintf("field %s: RFC value space is a non-negative integer, Go type %s accepts other texts", fn, st.Field(i).Type()))
						}
					}
					if exp.OmitEmpty != nil && got.OmitEmpty != nil && *exp.OmitEmpty != *got.OmitEmpty {
						diffs = append(diffs, fmt.Sprintf("field %s: omitempty have %v, required %v", fn, *got.OmitEmpty, *exp.OmitEmpty))
					}
				}
				// relative order of child elements (encoding/xml emits fields in declaration order)
				pos := map[string]int{}
				for i := 0; i < st.NumFields(); i++ {
					pos[st.Field(i).Name()] = i
				}
				for k := 1; k < len(w.Order); k++ {
					a, b := w.Order[k-1], w.Order[k]
					if pa, ok := pos[a]; ok {
						if pb, ok := pos[b]; ok && pa > pb {
							diffs = append(diffs, fmt.Sprintf("child order: %s must precede %s", a, b))
						}
					}
				}
				if w.XMLName != "" && !seen["XMLName"] {
					diffs = append(diffs, "no XMLName field")
				}
				for fn := range w.Fields {
					if !seen[fn] {
						diffs = append(diffs, fmt.Sprintf("field %s of the RFC schema statement is missing", fn))
					}
				}
			}
			if len(diffs) == 0 {
				o.Result = "unsat"
			} else {
				sort.Strings(diffs)
				o.Result = "sat"
				o.Output = strings.Join(diffs, "; ")
			}
		}
	}
	return out
}

// cmdSchemaDraft prints the schema of a package as the tags currently state it (a starting point that
// must be reviewed against the RFC before it is committed as the independent statement).
func cmdSchemaDraft(args []string) {
	P, err := loadProgram()
	if err != nil {
		fmt.Fprintln(os.Stderr, err)
		os.Exit(3)
	}
	out := map[string]schemaStruct{}
	for _, p := range P.Pkgs {
		if shortPkg(p.PkgPath) != args[0] {
			continue
		}
		for _, n := range p.Types.Scope().Names() {
			st, ok := p.Types.Scope().Lookup(n).Type().Underlying().(*types.Struct)
			if !ok {
				continue
			}
			if _, isType := p.Types.Scope().Lookup(n).(*types.TypeName); !isType {
				continue
			}
			s := schemaStruct{Fields: map[string]schemaField{}}
			has := false
			for i := 0; i < st.NumFields(); i++ {
				f := parseXMLTag(st.Tag(i), st.Field(i).Name())
				if st.Field(i).Name() == "XMLName" {
					s.XMLName = f.Name
					has = true
					continue
				}
				s.Fields[st.Field(i).Name()] = f
			}
			if has {
				out[n] = s
			}
		}
	}
	data, _ := json.MarshalIndent(out, "", " ")
	fmt.Println(string(data))
}

// Decode-cannot-fail obligations (C13): a contract that tolerates "the error of decoding into type T" as a
// cause of a 5xx rests on the side condition that encoding/xml cannot fail while filling T from well-formed
// XML. That holds when every field reachable from T is character data without validation: string (or a named
// string type without its own text/XML unmarshaler), xml.Name, *struct{} / struct{} markers, and slices,
// pointers and structs of such. A number, a bool, or a type with UnmarshalText / UnmarshalXML / UnmarshalXMLAttr
// makes the side condition false. Discharged by inspection of the types of /repo's current source.
func checkNoFailDecode(P *Program, items []string) []*FuncResult {
	var out []*FuncResult
	for _, it := range items {
		fr := &FuncResult{Key: "nofail-decode"}
		out = append(out, fr)
		o := &Obligation{Fn: "nofail-decode", Label: it, Kind: "schema", Goal: "encoding/xml cannot fail while decoding well-formed XML into " + it, Backend: "syntactic-inspection"}
		fr.Obls = append(fr.Obls, o)
		i := strings.LastIndex(it, ".")
		var tp *types.Package
		for _, p := range P.Pkgs {
			if i > 0 && shortPkg(p.PkgPath) == it[:i] {
				tp = p.Types
			}
		}
		if tp == nil || tp.Scope().Lookup(it[i+1:]) == nil {
			o.Result, o.Output = "sat", "type "+it+" not found"
			continue
		}
		var bad []string
		seen := map[string]bool{}
		var walk func(t types.Type, path string)
		hasUnmarshaler := func(t types.Type) string {
			for _, tt := range []types.Type{t, types.NewPointer(t)} {
				ms := types.NewMethodSet(tt)
				for _, m := range []string{"UnmarshalText", "UnmarshalXML", "UnmarshalXMLAttr"} {
					if ms.Lookup(nil, m) != nil || ms.Lookup(tp, m) != nil {
						return m
					}
				}
			}
			return ""
		}
		walk = func(t types.Type, path string) {
			if seen[path+"|"+t.String()] {
				return
			}
			seen[path+"|"+t.String()] = true
			if n, ok := t.(*types.Named); ok {
				if n.Obj().Pkg() != nil && n.Obj().Pkg().Path() == "encoding/xml" && n.Obj().Name() == "Name" {
					return
				}
				if m := hasUnmarshaler(t); m != "" {
					bad = append(bad, fmt.Sprintf("%s: type %s has its own %s (may reject input)", path, t, m))
					return
				}
			}
			switch u := t.Underlying().(type) {
			case *types.Basic:
				if u.Info()&types.IsString == 0 {
					bad = append(bad, fmt.Sprintf("%s: %s is parsed from text (may reject input)", path, t))
				}
			case *types.Pointer:
				walk(u.Elem(), path)
			case *types.Slice:
				if b, ok := u.Elem().(*types.Basic); ok && b.Kind() == types.Byte {
					return
				}
				walk(u.Elem(), path+"[]")
			case *types.Struct:
				for j := 0; j < u.NumFields(); j++ {
					if parseXMLTag(u.Tag(j), u.Field(j).Name()).Kind == "ignored" {
						continue
					}
					walk(u.Field(j).Type(), path+"."+u.Field(j).Name())
				}
			default:
				bad = append(bad, fmt.Sprintf("%s: unsupported kind %s", path, t))
			}
		}
		walk(tp.Scope().Lookup(it[i+1:]).Type(), it)
		if len(bad) == 0 {
			o.Result = "unsat"
		} else {
			o.Result, o.Output = "sat", strings.Join(bad, "; ")
		}
	}
	return out
}
