package main

// Logical model of Go values in SMT-LIB (see DESIGN.md section 2.3).
//
//   bool -> Bool, all integer kinds -> Int (mathematical), string / []byte -> String,
//   pointers / maps / funcs / chans -> Int (reference, 0 = nil),
//   slices -> datatype Slice(base, off, len, cap) with contents in per-element-type heaps,
//   interfaces -> datatype Iface(tag, val), structs -> one datatype per struct type,
//   time.Time -> datatype Time(ns, loc).

import (
	"fmt"
	"go/types"
	"sort"
	"strings"
)

// Ctx collects the global (path independent) part of all queries of one function
// verification: sorts, datatypes, uninterpreted functions, axioms.
type Ctx struct {
	decls    []string
	declSet  map[string]bool
	dtDone   map[string]bool
	typeIDs  map[string]int
	typeByID []types.Type
	fresh    int
	anon     map[string]string
	canon    map[*types.Struct]string
	heapVal  map[string]heapInfo
	warnings map[string]bool
	// names of trusted assumptions used (T-ids, extern contracts)
	used map[string]bool
}

func newCtx() *Ctx {
	c := &Ctx{declSet: map[string]bool{}, dtDone: map[string]bool{}, typeIDs: map[string]int{}, anon: map[string]string{}, canon: map[*types.Struct]string{}, heapVal: map[string]heapInfo{}, warnings: map[string]bool{}, used: map[string]bool{}}
	c.decl("(declare-datatypes ((Slice 0)) (((mkSlice (s_base Int) (s_len Int) (s_cap Int)))))")
	c.decl("(declare-datatypes ((Iface 0)) (((mkIface (i_tag Int) (i_val Int)))))")
	c.decl("(define-fun nilI () Iface (mkIface 0 0))")
	c.decl("(define-fun nilS () Slice (mkSlice 0 0 0))")
	c.decl("(declare-datatypes ((Time 0)) (((mkTime (t_ns Int) (t_loc Int)))))")
	// the zero time.Time: instant Z0 (year 1), UTC location id 0
	c.decl("(define-fun Z0 () Int (- 62135596800000000000))")
	c.decl("(define-fun zeroTime () Time (mkTime Z0 0))")
	// error algebra observers (DESIGN 2.3)
	c.decl("(declare-fun asHTTP (Iface) Int)")   // first *HTTPError in the chain, 0 if none
	c.decl("(declare-fun asDavErr (Iface) Int)") // first *internal.Error in the chain, 0 if none
	c.decl("(declare-fun asPathErr (Iface) Int)")
	c.decl("(declare-fun isNotExist (Iface) Bool)")
	c.decl("(declare-fun isExist (Iface) Bool)")
	c.decl("(declare-fun isPerm (Iface) Bool)")
	c.decl("(declare-fun isDeadline (Iface) Bool)")
	c.decl("(declare-fun isNotDir (Iface) Bool)")  // errors.Is(e, syscall.ENOTDIR)
	c.decl("(declare-fun asLinkErr (Iface) Int)") // first *os.LinkError in the chain
	c.decl("(declare-fun osIsExist (Iface) Bool)")    // os.IsExist: no unwrapping beyond *PathError / *LinkError
	c.decl("(declare-fun osIsNotExist (Iface) Bool)") // os.IsNotExist
	c.decl("(declare-fun errText (Iface) String)")
	c.decl("(declare-fun hostPath (Iface) Bool)") // ghost: error text mentions a host path
	c.decl("(assert (and " + obsNone("nilI") + " (not (hostPath nilI)) (not (osIsExist nilI)) (not (osIsNotExist nilI))))")
	c.decl("(declare-fun bitand (Int Int) Int)")
	c.decl("(declare-fun bitor (Int Int) Int)")
	return c
}

func (c *Ctx) warn(format string, a ...interface{}) {
	c.warnings[fmt.Sprintf(format, a...)] = true
}

func (c *Ctx) decl(s string) {
	if !c.declSet[s] {
		c.declSet[s] = true
		c.decls = append(c.decls, s)
	}
}

func (c *Ctx) freshName(prefix string) string {
	c.fresh++
	return fmt.Sprintf("|%s!%d|", prefix, c.fresh)
}

var nameReplacer = strings.NewReplacer(
	"github.com/emersion/go-webdav/", "", "github.com/emersion/go-webdav.", "webdav.",
	"github.com/emersion/", "",
	"/", "_", ".", "_", "-", "_", "*", "P", "[", "L", "]", "_", " ", "_", "(", "_", ")", "_", ",", "_", "{", "_", "}", "_", ";", "_", "\"", "", ":", "_", "`", "")

func mangle(s string) string { return nameReplacer.Replace(s) }

func isByteSlice(t types.Type) bool {
	if s, ok := t.Underlying().(*types.Slice); ok {
		if b, ok := s.Elem().Underlying().(*types.Basic); ok {
			return b.Kind() == types.Uint8
		}
	}
	return false
}

func isTimeType(t types.Type) bool {
	if n, ok := t.(*types.Named); ok {
		if n.Obj().Pkg() != nil && n.Obj().Pkg().Path() == "time" && n.Obj().Name() == "Time" {
			return true
		}
		// named types whose underlying type is time.Time's struct (internal.Time, dateWithUTCTime)
		if u, ok := n.Underlying().(*types.Struct); ok && isTimeStruct(u) {
			return true
		}
	}
	return false
}

func isTimeStruct(u *types.Struct) bool {
	if u.NumFields() != 3 {
		return false
	}
	return u.Field(0).Name() == "wall" && u.Field(1).Name() == "ext" && u.Field(2).Name() == "loc"
}

func isErrorType(t types.Type) bool {
	return t.String() == "error"
}

// structName returns the SMT datatype name for a struct type.
func (c *Ctx) structName(t types.Type) string {
	if n, ok := t.(*types.Named); ok {
		// named types sharing one underlying struct (type Href url.URL) share one datatype and
		// one set of field heaps, so that pointer conversions between them stay sound
		if u, ok := n.Underlying().(*types.Struct); ok {
			if s, ok := c.canon[u]; ok {
				return s
			}
			s := "S_" + mangle(n.String())
			if o, ok := n.Origin().Underlying().(*types.Struct); ok && o == u {
				// prefer the name of the defining type when we can find it
			}
			c.canon[u] = s
			return s
		}
		return "S_" + mangle(n.String())
	}
	if a, ok := t.(*types.Alias); ok {
		return c.structName(types.Unalias(a))
	}
	key := t.Underlying().String()
	if s, ok := c.anon[key]; ok {
		return s
	}
	s := fmt.Sprintf("S_anon%d", len(c.anon))
	if key == "struct{}" {
		s = "S_empty"
	}
	c.anon[key] = s
	return s
}

// sortOf returns the SMT sort of a Go type, declaring datatypes on demand.
func (c *Ctx) sortOf(t types.Type) string {
	if t == nil {
		return "Int"
	}
	if isTimeType(t) {
		return "Time"
	}
	if isByteSlice(t) {
		return "String"
	}
	switch u := t.Underlying().(type) {
	case *types.Basic:
		switch {
		case u.Info()&types.IsBoolean != 0:
			return "Bool"
		case u.Info()&types.IsInteger != 0:
			return "Int"
		case u.Info()&types.IsString != 0:
			return "String"
		case u.Info()&types.IsFloat != 0:
			return "Real"
		case u.Kind() == types.UnsafePointer, u.Kind() == types.UntypedNil:
			return "Int"
		}
	case *types.Pointer, *types.Map, *types.Signature, *types.Chan:
		return "Int"
	case *types.Interface:
		return "Iface"
	case *types.Slice:
		return "Slice"
	case *types.Array:
		// arrays by value are modelled as a slice header over a private backing store
		return "Slice"
	case *types.Struct:
		name := c.structName(t)
		if !c.dtDone[name] {
			c.dtDone[name] = true
			var fs []string
			for i := 0; i < u.NumFields(); i++ {
				fs = append(fs, fmt.Sprintf("(%s %s)", c.selName(t, i), c.sortOf(u.Field(i).Type())))
			}
			if len(fs) == 0 {
				c.decl(fmt.Sprintf("(declare-datatypes ((%s 0)) (((mk_%s))))", name, name))
			} else {
				c.decl(fmt.Sprintf("(declare-datatypes ((%s 0)) (((mk_%s %s))))", name, name, strings.Join(fs, " ")))
			}
		}
		return name
	case *types.Tuple:
		return "TUPLE"
	}
	panic("sortOf: unsupported type " + t.String())
}

func (c *Ctx) selName(t types.Type, i int) string {
	u := t.Underlying().(*types.Struct)
	return fmt.Sprintf("%s_%s", c.structName(t), u.Field(i).Name())
}

func (c *Ctx) mkStruct(t types.Type, args []string) string {
	c.sortOf(t)
	if len(args) == 0 {
		return "mk_" + c.structName(t)
	}
	return fmt.Sprintf("(mk_%s %s)", c.structName(t), strings.Join(args, " "))
}

// zero value of a type
func (c *Ctx) zero(t types.Type) string {
	s := c.sortOf(t)
	switch s {
	case "Bool":
		return "false"
	case "Int":
		return "0"
	case "String":
		return `""`
	case "Real":
		return "0.0"
	case "Iface":
		return "nilI"
	case "Slice":
		return "nilS"
	case "Time":
		return "(mkTime (- 62135596800000000000) 0)"
	}
	if u, ok := t.Underlying().(*types.Struct); ok {
		var a []string
		for i := 0; i < u.NumFields(); i++ {
			a = append(a, c.zero(u.Field(i).Type()))
		}
		return c.mkStruct(t, a)
	}
	panic("zero: " + t.String())
}

// heapField: name of the heap array for field i of struct type st (Int -> field sort).
type heapInfo struct {
	t    types.Type // type of the stored values
	dims int        // 1: ref -> value, 2: ref -> index/key -> value
	key  types.Type // key type for maps (nil: Int index)
}

func (c *Ctx) heapFieldName(st types.Type, i int) string {
	u := st.Underlying().(*types.Struct)
	n := fmt.Sprintf("H_%s_%s", strings.TrimPrefix(c.structName(st), "S_"), u.Field(i).Name())
	c.heapVal[n] = heapInfo{t: u.Field(i).Type(), dims: 1}
	return n
}

func (c *Ctx) heapFieldSort(st types.Type, i int) string {
	u := st.Underlying().(*types.Struct)
	return fmt.Sprintf("(Array Int %s)", c.sortOf(u.Field(i).Type()))
}

// heapCell: heap for pointers to non-struct values (*string, *int, *ETag ...)
func (c *Ctx) heapCellName(t types.Type) string {
	n := "HC_" + mangle(t.String())
	c.heapVal[n] = heapInfo{t: t, dims: 1}
	return n
}

// elemHeap: contents of slices with element type t: base -> index -> value
func (c *Ctx) elemHeapName(t types.Type) string {
	n := "E_" + mangle(t.String())
	if _, ok := t.Underlying().(*types.Struct); ok && !isTimeType(t) {
		n = "E_" + strings.TrimPrefix(c.structName(t), "S_")
	}
	c.heapVal[n] = heapInfo{t: t, dims: 2}
	return n
}

func (c *Ctx) elemHeapSort(t types.Type) string {
	return fmt.Sprintf("(Array Int (Array Int %s))", c.sortOf(t))
}

// map heaps: values and domain
func (c *Ctx) mapHeapNames(m *types.Map) (val, dom string) {
	n := mangle(m.Key().String()) + "__" + mangle(m.Elem().String())
	c.heapVal["MV_"+n] = heapInfo{t: m.Elem(), dims: 2, key: m.Key()}
	return "MV_" + n, "MD_" + n
}

func (c *Ctx) typeID(t types.Type) int {
	k := t.String()
	if id, ok := c.typeIDs[k]; ok {
		return id
	}
	id := len(c.typeIDs) + 1
	c.typeIDs[k] = id
	c.typeByID = append(c.typeByID, t)
	return id
}

// box / unbox for non-reference dynamic values inside interfaces
func (c *Ctx) boxFuncs(sort string) (box, unbox string) {
	m := mangle(sort)
	box, unbox = "box_"+m, "unbox_"+m
	c.decl(fmt.Sprintf("(declare-fun %s (%s) Int)", box, sort))
	c.decl(fmt.Sprintf("(declare-fun %s (Int) %s)", unbox, sort))
	c.decl(fmt.Sprintf("(assert (forall ((x %s)) (! (= (%s (%s x)) x) :pattern ((%s x)))))", sort, unbox, box, box))
	return
}

func smtString(s string) string {
	var b strings.Builder
	b.WriteByte('"')
	for i := 0; i < len(s); i++ {
		r := s[i]
		switch {
		case r == '"':
			b.WriteString(`""`)
		case r < 0x20 || r > 0x7e || r == '\\':
			fmt.Fprintf(&b, `\u{%x}`, r)
		default:
			b.WriteByte(r)
		}
	}
	b.WriteByte('"')
	return b.String()
}

func smtInt(v int64) string {
	if v < 0 {
		return fmt.Sprintf("(- %d)", -v)
	}
	return fmt.Sprintf("%d", v)
}

func and(xs ...string) string {
	var ys []string
	for _, x := range xs {
		if x == "true" || x == "" {
			continue
		}
		ys = append(ys, x)
	}
	switch len(ys) {
	case 0:
		return "true"
	case 1:
		return ys[0]
	}
	return "(and " + strings.Join(ys, " ") + ")"
}

func or(xs ...string) string {
	var ys []string
	for _, x := range xs {
		if x == "false" || x == "" {
			continue
		}
		ys = append(ys, x)
	}
	switch len(ys) {
	case 0:
		return "false"
	case 1:
		return ys[0]
	}
	return "(or " + strings.Join(ys, " ") + ")"
}

func not(x string) string {
	if x == "true" {
		return "false"
	}
	if x == "false" {
		return "true"
	}
	if strings.HasPrefix(x, "(not ") && balancedTail(x[5:len(x)-1]) {
		return x[5 : len(x)-1]
	}
	return "(not " + x + ")"
}

func balancedTail(s string) bool {
	d := 0
	inStr := false
	for i := 0; i < len(s); i++ {
		ch := s[i]
		if inStr {
			if ch == '"' {
				inStr = false
			}
			continue
		}
		switch ch {
		case '"':
			inStr = true
		case '(':
			d++
		case ')':
			d--
			if d < 0 {
				return false
			}
			if d == 0 && i != len(s)-1 {
				return false
			}
		case ' ':
			if d == 0 {
				return false
			}
		}
	}
	return d == 0
}

func implies(a, b string) string {
	if a == "true" {
		return b
	}
	return "(=> " + a + " " + b + ")"
}

func ite(c, a, b string) string {
	if c == "true" {
		return a
	}
	if c == "false" {
		return b
	}
	return "(ite " + c + " " + a + " " + b + ")"
}

func sortedKeys(m map[string]bool) []string {
	var out []string
	for k := range m {
		out = append(out, k)
	}
	sort.Strings(out)
	return out
}
