package main

// Contract files: Gobra-style "//@" comment lines.
//
// In /repo/<pkg>/contracts_verif.go (build tag verif, comment only) for functions of /repo,
// and in /verif/specs/*.spec for code outside /repo (assumed contracts, spec functions,
// ghost state, raw SMT prelude).

import (
	"fmt"
	"os"
	"path/filepath"
	"regexp"
	"strconv"
	"strings"
	"unicode"
)

type Clause struct {
	Label string
	Text  string
	Expr  Expr
	File  string
	Line  int
	Loop  int // for invariants
}

type FuncContract struct {
	Key        string
	Pkg        string // package context for name resolution
	Extern     bool
	Aliases    []string
	Requires   []*Clause
	Ensures    []*Clause
	Invariants map[int][]*Clause
	Assigns    []string
	HasAssigns bool
	Pure       bool
	Allocates  bool
	Opaque     bool
	NoInline   bool
	Nilable    map[string]bool
	Trusted    string
	Props      []string
	Decreases  *Clause
	File       string
	Line       int
	Reveal     map[string]bool
	GhostSets  []GhostSet // ghost assignments executed at function entry
	Decodes    []string // parameters (interface values boxing a pointer) whose pointee is overwritten arbitrarily
	Witness    map[string]map[string]Expr // clause label -> existential variable -> witness term
	Names      []string // declared parameter/result names for externs: (a, b) (r1, r2)
	ResNames   []string
	ImplOf     string // contract of an interface method cloned from this proved method contract (implements)
	ConstFn    string // function literal that always returns (the content of this captured write-once variable, nil)
}

type GhostSet struct {
	Name string
	Expr Expr
}

type SpecParam struct {
	Name string
	Type string
}

type SpecFunc struct {
	Name      string
	Pkg       string
	Params    []SpecParam
	Result    string
	Body      Expr
	Text      string
	Recursive bool
	Opaque    bool
	File      string
	Line      int
}

type Library struct {
	Funcs  map[string]*FuncContract
	Specs  map[string]*SpecFunc
	Ghosts map[string]string // name -> type
	GhostPkg map[string]string
	SMT    []string
	Axioms []*Clause
	Lemmas []*Clause
	AxPkg  map[*Clause]string
	Files  []string
	LemmaOpts map[string]*LemmaOpt
	Impls  []implDirective
	// OpenFindings: "function/label" of the clauses named by open entries of known_findings.json
	OpenFindings map[string]bool
}

// implements <iface> by <concrete> recv <name> as <expr>: every method contract <concrete>.M (proved) is also the
// contract of <iface>.M at interface call sites, for receivers whose dynamic type is the concrete one.
type implDirective struct {
	Iface, Concrete, Recv, As, Is string
	File                         string
	Line                         int
}

type LemmaOpt struct {
	Using  []string
	Reveal map[string]bool // nil: every spec function is transparent
}

func newLibrary() *Library {
	return &Library{Funcs: map[string]*FuncContract{}, Specs: map[string]*SpecFunc{}, Ghosts: map[string]string{}, GhostPkg: map[string]string{}, AxPkg: map[*Clause]string{}, LemmaOpts: map[string]*LemmaOpt{}, OpenFindings: map[string]bool{}}
}

func (L *Library) loadAll(repo string, specDir string) error {
	var files []string
	for _, d := range []string{"", "internal", "caldav", "carddav"} {
		m, _ := filepath.Glob(filepath.Join(repo, d, "contracts_verif*.go"))
		files = append(files, m...)
	}
	m, _ := filepath.Glob(filepath.Join(specDir, "*.spec"))
	files = append(files, m...)
	for _, f := range files {
		if err := L.loadFile(f); err != nil {
			return err
		}
	}
	return L.expandImplements()
}

func (L *Library) expandImplements() error {
	for _, d := range L.Impls {
		re := regexp.MustCompile(`\b` + regexp.QuoteMeta(d.Recv) + `\b`)
		for key, c := range L.Funcs {
			if !strings.HasPrefix(key, d.Concrete+".") || len(c.Names) == 0 || c.Names[0] != d.Recv {
				continue
			}
			m := key[len(d.Concrete)+1:]
			if strings.Contains(m, "$") || m == "" || !unicode.IsUpper(rune(m[0])) {
				continue
			}
			ik := d.Iface + "." + m
			if _, dup := L.Funcs[ik]; dup {
				continue
			}
			n := &FuncContract{Key: ik, Pkg: c.Pkg, Extern: true, Invariants: map[int][]*Clause{}, Nilable: c.Nilable, File: c.File, Line: c.Line,
				Names: c.Names, ResNames: c.ResNames, Assigns: c.Assigns, HasAssigns: true, Allocates: true, Pure: c.Pure, Reveal: c.Reveal, Witness: c.Witness, ImplOf: key}
			is, err := parseClause("IMPL: "+d.Is, d.File, d.Line)
			if err != nil {
				return err
			}
			n.Requires = append(n.Requires, is)
			conv := func(cs []*Clause) ([]*Clause, error) {
				var out []*Clause
				for _, cl := range cs {
					nc, err := parseClause(re.ReplaceAllString(cl.Text, "("+d.As+")"), cl.File, cl.Line)
					if err != nil {
						return nil, err
					}
					nc.Label = cl.Label
					out = append(out, nc)
				}
				return out, nil
			}
			rq, err := conv(c.Requires)
			if err != nil {
				return err
			}
			n.Requires = append(n.Requires, rq...)
			if n.Ensures, err = conv(c.Ensures); err != nil {
				return err
			}
			L.Funcs[ik] = n
		}
	}
	return nil
}

func (L *Library) loadFile(path string) error {
	data, err := os.ReadFile(path)
	if err != nil {
		return err
	}
	L.Files = append(L.Files, path)
	pkg := ""
	var cur *FuncContract
	curLemma := ""
	type pending struct {
		kind  string
		text  string
		line  int
		apply func(text string, line int) error
	}
	var pend *pending
	flush := func() error {
		if pend == nil {
			return nil
		}
		p := pend
		pend = nil
		return p.apply(p.text, p.line)
	}
	lines := strings.Split(string(data), "\n")
	for i, raw := range lines {
		ln := i + 1
		s := strings.TrimSpace(raw)
		if strings.HasPrefix(s, "package ") && pkg == "" {
			pkg = strings.TrimSpace(strings.TrimPrefix(s, "package "))
			continue
		}
		if !strings.HasPrefix(s, "//@") {
			continue
		}
		s = strings.TrimSpace(strings.TrimPrefix(s, "//@"))
		if s == "" || strings.HasPrefix(s, "--") {
			continue
		}
		if strings.HasPrefix(s, "|") {
			if pend == nil {
				return fmt.Errorf("%s:%d: continuation without clause", path, ln)
			}
			pend.text += " " + strings.TrimSpace(s[1:])
			continue
		}
		if err := flush(); err != nil {
			return err
		}
		word, rest := splitWord(s)
		errf := func(format string, a ...interface{}) error {
			return fmt.Errorf("%s:%d: %s", path, ln, fmt.Sprintf(format, a...))
		}
		switch word {
		case "package":
			pkg = strings.TrimSpace(rest)
			cur = nil
		case "implements":
			// implements I by C recv r as <expr> when <expr>
			m := regexp.MustCompile(`^(\S+) by (\S+) recv (\w+) as (.+) when (.+)$`).FindStringSubmatch(strings.TrimSpace(rest))
			if m == nil {
				return errf("implements I by C recv r as <expr> when <expr>")
			}
			L.Impls = append(L.Impls, implDirective{Iface: m[1], Concrete: m[2], Recv: m[3], As: m[4], Is: m[5], File: path, Line: ln})
		case "func", "extern":
			curLemma = ""
			key, names, resnames, aliases, err := parseFuncHeader(rest)
			if err != nil {
				return errf("%v", err)
			}
			if _, dup := L.Funcs[key]; dup {
				return errf("duplicate contract for %s", key)
			}
			cur = &FuncContract{Key: key, Pkg: pkg, Extern: word == "extern", Invariants: map[int][]*Clause{}, Nilable: map[string]bool{}, File: path, Line: ln, Aliases: aliases, Names: names, ResNames: resnames}
			// functions of /repo write only memory they allocate unless they say otherwise (checked: "frame" obligations)
			cur.HasAssigns = word == "func"
			L.Funcs[key] = cur
		case "requires", "ensures":
			if cur == nil {
				return errf("%s outside func", word)
			}
			c := cur
			w := word
			pend = &pending{text: rest, line: ln, apply: func(text string, line int) error {
				cl, err := parseClause(text, path, line)
				if err != nil {
					return err
				}
				if cl.Label == "" {
					if w == "requires" {
						cl.Label = fmt.Sprintf("R%d", len(c.Requires)+1)
					} else {
						cl.Label = fmt.Sprintf("E%d", len(c.Ensures)+1)
					}
				}
				if w == "requires" {
					c.Requires = append(c.Requires, cl)
				} else {
					c.Ensures = append(c.Ensures, cl)
				}
				return nil
			}}
		case "loop":
			if cur == nil {
				return errf("loop outside func")
			}
			nstr, r2 := splitWord(rest)
			n, err := strconv.Atoi(nstr)
			if err != nil {
				return errf("loop ordinal: %v", err)
			}
			kw, r3 := splitWord(r2)
			if kw != "invariant" {
				return errf("expected 'invariant'")
			}
			c := cur
			pend = &pending{text: r3, line: ln, apply: func(text string, line int) error {
				cl, err := parseClause(text, path, line)
				if err != nil {
					return err
				}
				cl.Loop = n
				if cl.Label == "" {
					cl.Label = fmt.Sprintf("L%dI%d", n, len(c.Invariants[n])+1)
				}
				c.Invariants[n] = append(c.Invariants[n], cl)
				return nil
			}}
		case "assigns":
			if cur == nil {
				return errf("assigns outside func")
			}
			cur.HasAssigns = true
			for _, a := range strings.Split(rest, ",") {
				a = strings.TrimSpace(a)
				if a != "" && a != "nothing" {
					cur.Assigns = append(cur.Assigns, a)
				}
			}
		case "pure":
			cur.Pure = true
		case "allocates":
			cur.Allocates = true
		case "opaque":
			cur.Opaque = true
		case "ghostset":
			// ghostset <name> : <expr>  -- the function records expr in ghost variable name on entry
			c := cur
			i := strings.Index(rest, ":")
			if i < 0 {
				return errf("ghostset needs 'name : expr'")
			}
			gname := strings.TrimSpace(rest[:i])
			ge, err := parseExpr(strings.TrimSpace(rest[i+1:]))
			if err != nil {
				return errf("%v", err)
			}
			c.GhostSets = append(c.GhostSets, GhostSet{gname, ge})
			c.Assigns = append(c.Assigns, "ghost:"+gname)
		case "decodes":
			for _, a := range strings.Split(rest, ",") {
				cur.Decodes = append(cur.Decodes, strings.TrimSpace(a))
			}
		case "noinline":
			cur.NoInline = true
		case "constfn":
			// constfn <captured variable>: the literal returns the content of that variable and a nil error on every path
			// (proved as its clause CONST); closures of it are then constant functions (pfConst / pfRet), provided the
			// captured variable is never written after the closure was made (checked syntactically where it is made)
			cur.ConstFn = strings.TrimSpace(rest)
		case "nilable":
			for _, a := range strings.Split(rest, ",") {
				cur.Nilable[strings.TrimSpace(a)] = true
			}
		case "trusted":
			cur.Trusted = strings.TrimSpace(rest)
		case "props":
			cur.Props = append(cur.Props, strings.Fields(rest)...)
		case "witness":
			// witness <Label>: <var> : <expr>   -- instantiation of an existential when the clause is proved
			c := cur
			pend = &pending{text: rest, line: ln, apply: func(text string, line int) error {
				i := strings.Index(text, ":")
				if i < 0 {
					return fmt.Errorf("%s:%d: witness needs 'Label: var : expr'", path, line)
				}
				label := strings.TrimSpace(text[:i])
				r := strings.TrimSpace(text[i+1:])
				j := strings.Index(r, ":")
				if j < 0 {
					return fmt.Errorf("%s:%d: witness needs 'Label: var : expr'", path, line)
				}
				v := strings.TrimSpace(r[:j])
				e, err := parseExpr(strings.TrimSpace(r[j+1:]))
				if err != nil {
					return fmt.Errorf("%s:%d: %v", path, line, err)
				}
				if c.Witness == nil {
					c.Witness = map[string]map[string]Expr{}
				}
				if c.Witness[label] == nil {
					c.Witness[label] = map[string]Expr{}
				}
				c.Witness[label][v] = e
				return nil
			}}
		case "using":
			if curLemma == "" {
				return errf("using outside lemma")
			}
			for _, a := range strings.Split(rest, ",") {
				L.LemmaOpts[curLemma].Using = append(L.LemmaOpts[curLemma].Using, strings.TrimSpace(a))
			}
		case "reveal":
			if cur == nil && curLemma != "" {
				o := L.LemmaOpts[curLemma]
				if o.Reveal == nil {
					o.Reveal = map[string]bool{}
				}
				for _, a := range strings.Split(rest, ",") {
					if a = strings.TrimSpace(a); a != "" && a != "nothing" {
						o.Reveal[a] = true
					}
				}
				continue
			}
			if cur.Reveal == nil {
				cur.Reveal = map[string]bool{}
			}
			for _, a := range strings.Split(rest, ",") {
				cur.Reveal[strings.TrimSpace(a)] = true
			}
		case "decreases":
			c := cur
			pend = &pending{text: rest, line: ln, apply: func(text string, line int) error {
				cl, err := parseClause(text, path, line)
				if err != nil {
					return err
				}
				c.Decreases = cl
				return nil
			}}
		case "spec":
			cur = nil
			p := pkg
			opaque := false
			if strings.HasPrefix(rest, "opaque ") {
				opaque = true
				rest = strings.TrimSpace(strings.TrimPrefix(rest, "opaque "))
			}
			pend = &pending{text: rest, line: ln, apply: func(text string, line int) error {
				sf, err := parseSpec(text, path, line)
				if err != nil {
					return err
				}
				sf.Pkg = p
				sf.Opaque = opaque
				if _, dup := L.Specs[sf.Name]; dup {
					return fmt.Errorf("%s:%d: duplicate spec %s", path, line, sf.Name)
				}
				L.Specs[sf.Name] = sf
				return nil
			}}
		case "ghost":
			cur = nil
			name, ty := splitWord(rest)
			L.Ghosts[name] = strings.TrimSpace(ty)
			L.GhostPkg[name] = pkg
		case "smt":
			cur = nil
			L.SMT = append(L.SMT, rest)
		case "axiom", "lemma":
			cur = nil
			w := word
			p := pkg
			if w == "lemma" {
				if i := strings.Index(rest, ":"); i > 0 {
					curLemma = strings.TrimSpace(rest[:i])
					L.LemmaOpts[curLemma] = &LemmaOpt{}
				}
			}
			pend = &pending{text: rest, line: ln, apply: func(text string, line int) error {
				cl, err := parseClause(text, path, line)
				if err != nil {
					return err
				}
				if cl.Label == "" {
					return fmt.Errorf("%s:%d: %s needs a label", path, line, w)
				}
				L.AxPkg[cl] = p
				if w == "axiom" {
					L.Axioms = append(L.Axioms, cl)
				} else {
					L.Lemmas = append(L.Lemmas, cl)
				}
				return nil
			}}
		default:
			return errf("unknown directive %q", word)
		}
	}
	return flush()
}

func splitWord(s string) (string, string) {
	s = strings.TrimSpace(s)
	i := strings.IndexFunc(s, unicode.IsSpace)
	if i < 0 {
		return s, ""
	}
	return s[:i], strings.TrimSpace(s[i:])
}

// parseFuncHeader: key [ "(" names ")" [ "(" names ")" ] ] [ "as" a, b ]
// key may itself contain parentheses: pkg.(*T).M, (ical.Props).Get
func parseFuncHeader(s string) (key string, names, resnames, aliases []string, err error) {
	s = strings.TrimSpace(s)
	if i := strings.Index(s, " as "); i >= 0 {
		for _, a := range strings.Split(s[i+4:], ",") {
			aliases = append(aliases, strings.TrimSpace(a))
		}
		s = strings.TrimSpace(s[:i])
	}
	// key ends at the first space or at a '(' that directly follows an identifier char and is not part of "(T)." receiver syntax
	i := 0
	depth := 0
	for i < len(s) {
		ch := s[i]
		if ch == '(' {
			// receiver group if followed later by ")." pattern
			j := strings.IndexByte(s[i:], ')')
			if j > 0 && i+j+1 < len(s) && s[i+j+1] == '.' {
				i += j + 1
				continue
			}
			break
		}
		if ch == ' ' && depth == 0 {
			break
		}
		i++
	}
	key = strings.TrimSpace(s[:i])
	rest := strings.TrimSpace(s[i:])
	grp := func() ([]string, error) {
		if !strings.HasPrefix(rest, "(") {
			return nil, nil
		}
		j := strings.IndexByte(rest, ')')
		if j < 0 {
			return nil, fmt.Errorf("unbalanced parentheses in func header")
		}
		var out []string
		for _, n := range strings.Split(rest[1:j], ",") {
			n = strings.TrimSpace(n)
			if n != "" {
				out = append(out, n)
			}
		}
		rest = strings.TrimSpace(rest[j+1:])
		return out, nil
	}
	if names, err = grp(); err != nil {
		return
	}
	if resnames, err = grp(); err != nil {
		return
	}
	if key == "" {
		err = fmt.Errorf("missing function key")
	}
	return
}

func parseClause(text, file string, line int) (*Clause, error) {
	text = strings.TrimSpace(text)
	label := ""
	// optional label: IDENT ':' (not '::')
	if i := strings.Index(text, ":"); i > 0 && (i+1 >= len(text) || text[i+1] != ':') {
		cand := strings.TrimSpace(text[:i])
		if isLabel(cand) {
			label = cand
			text = strings.TrimSpace(text[i+1:])
		}
	}
	e, err := parseExpr(text)
	if err != nil {
		return nil, fmt.Errorf("%s:%d: %v in %q", file, line, err, text)
	}
	return &Clause{Label: label, Text: text, Expr: e, File: file, Line: line}, nil
}

func isLabel(s string) bool {
	if s == "" {
		return false
	}
	for i, r := range s {
		if !(unicode.IsLetter(r) || r == '_' || (i > 0 && (unicode.IsDigit(r) || r == '-' || r == '.'))) {
			return false
		}
	}
	switch s {
	case "forall", "exists", "old", "let", "true", "false", "nil":
		return false
	}
	return true
}

// parseSpec: name(p1 T1, p2 T2) T = expr     |   name(p T) T   (uninterpreted)
func parseSpec(text, file string, line int) (*SpecFunc, error) {
	i := strings.IndexByte(text, '(')
	if i < 0 {
		return nil, fmt.Errorf("%s:%d: spec: missing '('", file, line)
	}
	sf := &SpecFunc{Name: strings.TrimSpace(text[:i]), File: file, Line: line, Text: text}
	depth := 0
	j := i
	for ; j < len(text); j++ {
		if text[j] == '(' {
			depth++
		} else if text[j] == ')' {
			depth--
			if depth == 0 {
				break
			}
		}
	}
	if j >= len(text) {
		return nil, fmt.Errorf("%s:%d: spec: unbalanced parameter list", file, line)
	}
	for _, p := range splitTop(text[i+1:j], ',') {
		p = strings.TrimSpace(p)
		if p == "" {
			continue
		}
		n, t := splitWord(p)
		sf.Params = append(sf.Params, SpecParam{Name: n, Type: strings.TrimSpace(t)})
	}
	// parameters without type take the type of the next typed one: (a, b int)
	for k := len(sf.Params) - 1; k >= 0; k-- {
		if sf.Params[k].Type == "" && k+1 < len(sf.Params) {
			sf.Params[k].Type = sf.Params[k+1].Type
		}
	}
	rest := strings.TrimSpace(text[j+1:])
	if eq := indexTopEq(rest); eq >= 0 {
		sf.Result = strings.TrimSpace(rest[:eq])
		body := strings.TrimSpace(rest[eq+1:])
		e, err := parseExpr(body)
		if err != nil {
			return nil, fmt.Errorf("%s:%d: %v in spec %s", file, line, err, sf.Name)
		}
		sf.Body = e
	} else {
		sf.Result = rest
	}
	return sf, nil
}

func indexTopEq(s string) int {
	for i := 0; i < len(s); i++ {
		if s[i] == '=' {
			if i+1 < len(s) && s[i+1] == '=' {
				i++
				continue
			}
			if i > 0 && (s[i-1] == '!' || s[i-1] == '<' || s[i-1] == '>' || s[i-1] == '=') {
				continue
			}
			return i
		}
	}
	return -1
}

func splitTop(s string, sep byte) []string {
	var out []string
	depth := 0
	start := 0
	for i := 0; i < len(s); i++ {
		switch s[i] {
		case '(', '[':
			depth++
		case ')', ']':
			depth--
		default:
			if s[i] == sep && depth == 0 {
				out = append(out, s[start:i])
				start = i + 1
			}
		}
	}
	out = append(out, s[start:])
	return out
}

// ---------------------------------------------------------------------------
// expression AST and parser

type Expr interface{}

type (
	EIdent struct{ Name string }
	EInt   struct{ V string }
	EStr   struct{ V string }
	EBool  struct{ V bool }
	ENil   struct{}
	EIter  struct{ Loop int } // #i : completed iterations of the (enclosing / numbered) loop
	EUn    struct {
		Op string
		X  Expr
	}
	EBin struct {
		Op   string
		X, Y Expr
	}
	ESel struct {
		X    Expr
		Name string
	}
	EIdx struct {
		X, I Expr
	}
	ESlice struct {
		X, Lo, Hi Expr
	}
	ECall struct {
		Fun  string
		Args []Expr
	}
	EOld   struct{ X Expr }
	QVar   struct{ Name, Type string }
	EQuant struct {
		Forall bool
		Vars   []QVar
		Body   Expr
	}
	ECond struct{ C, A, B Expr }
	ELet  struct {
		Name string
		V    Expr
		Body Expr
	}
)

type ctoken struct {
	kind string // id, int, str, op, eof
	text string
}

type lexer struct {
	toks []ctoken
	pos  int
}

func lex(s string) ([]ctoken, error) {
	var toks []ctoken
	i := 0
	for i < len(s) {
		ch := s[i]
		switch {
		case ch == ' ' || ch == '\t':
			i++
		case unicode.IsLetter(rune(ch)) || ch == '_' || ch == '$':
			j := i + 1
			for j < len(s) && (unicode.IsLetter(rune(s[j])) || unicode.IsDigit(rune(s[j])) || s[j] == '_' || s[j] == '$') {
				j++
			}
			toks = append(toks, ctoken{"id", s[i:j]})
			i = j
		case unicode.IsDigit(rune(ch)):
			j := i + 1
			for j < len(s) && unicode.IsDigit(rune(s[j])) {
				j++
			}
			toks = append(toks, ctoken{"int", s[i:j]})
			i = j
		case ch == '"':
			j := i + 1
			for j < len(s) && s[j] != '"' {
				if s[j] == '\\' {
					j++
				}
				j++
			}
			if j >= len(s) {
				return nil, fmt.Errorf("unterminated string")
			}
			v, err := strconv.Unquote(s[i : j+1])
			if err != nil {
				return nil, fmt.Errorf("bad string literal %s", s[i:j+1])
			}
			toks = append(toks, ctoken{"str", v})
			i = j + 1
		case ch == '`':
			j := strings.IndexByte(s[i+1:], '`')
			if j < 0 {
				return nil, fmt.Errorf("unterminated raw string")
			}
			toks = append(toks, ctoken{"str", s[i+1 : i+1+j]})
			i = i + j + 2
		case ch == '#':
			j := i + 1
			for j < len(s) && (unicode.IsLetter(rune(s[j])) || unicode.IsDigit(rune(s[j]))) {
				j++
			}
			toks = append(toks, ctoken{"iter", s[i+1 : j]})
			i = j
		default:
			ops := []string{"<==>", "==>", "::", "==", "!=", "<=", ">=", "&&", "||", "&", "<", ">", "!", "+", "-", "*", "/", "%", "(", ")", "[", "]", ",", ".", ":", "?", "@"}
			matched := false
			for _, op := range ops {
				if strings.HasPrefix(s[i:], op) {
					toks = append(toks, ctoken{"op", op})
					i += len(op)
					matched = true
					break
				}
			}
			if !matched {
				return nil, fmt.Errorf("unexpected character %q", ch)
			}
		}
	}
	toks = append(toks, ctoken{"eof", ""})
	return toks, nil
}

func parseExpr(s string) (Expr, error) {
	toks, err := lex(s)
	if err != nil {
		return nil, err
	}
	p := &lexer{toks: toks}
	e, err := p.expr()
	if err != nil {
		return nil, err
	}
	if p.peek().kind != "eof" {
		return nil, fmt.Errorf("unexpected %q", p.peek().text)
	}
	return e, nil
}

func (p *lexer) peek() ctoken { return p.toks[p.pos] }
func (p *lexer) next() ctoken  { t := p.toks[p.pos]; p.pos++; return t }
func (p *lexer) isOp(op string) bool {
	t := p.peek()
	return t.kind == "op" && t.text == op
}
func (p *lexer) isID(id string) bool {
	t := p.peek()
	return t.kind == "id" && t.text == id
}
func (p *lexer) expect(op string) error {
	if !p.isOp(op) {
		return fmt.Errorf("expected %q, got %q", op, p.peek().text)
	}
	p.pos++
	return nil
}

func (p *lexer) expr() (Expr, error) {
	if p.isID("forall") || p.isID("exists") {
		fa := p.next().text == "forall"
		var vars []QVar
		for {
			t := p.next()
			if t.kind != "id" {
				return nil, fmt.Errorf("quantifier: expected variable")
			}
			v := QVar{Name: t.text}
			// optional type: tokens until ',' or '::'
			var ty []string
			for !p.isOp(",") && !p.isOp("::") && p.peek().kind != "eof" {
				ty = append(ty, p.next().text)
			}
			v.Type = strings.Join(ty, "")
			vars = append(vars, v)
			if p.isOp(",") {
				p.pos++
				continue
			}
			break
		}
		for k := len(vars) - 1; k >= 0; k-- {
			if vars[k].Type == "" {
				if k+1 < len(vars) {
					vars[k].Type = vars[k+1].Type
				} else {
					vars[k].Type = "int"
				}
			}
		}
		if err := p.expect("::"); err != nil {
			return nil, err
		}
		body, err := p.expr()
		if err != nil {
			return nil, err
		}
		return &EQuant{Forall: fa, Vars: vars, Body: body}, nil
	}
	if p.isID("let") {
		p.pos++
		n := p.next()
		if n.kind != "id" {
			return nil, fmt.Errorf("let: expected name")
		}
		if !(p.peek().kind == "op" && p.peek().text == "==") {
			// accept '=' spelled as ':' ':'? keep simple: require "=="? use "let x == e in body" is ugly; accept ':'
		}
		if p.isOp(":") {
			p.pos++
		} else {
			return nil, fmt.Errorf("let: expected ':' after name (let x : e in body)")
		}
		v, err := p.ternary()
		if err != nil {
			return nil, err
		}
		if !p.isID("in") {
			return nil, fmt.Errorf("let: expected 'in'")
		}
		p.pos++
		body, err := p.expr()
		if err != nil {
			return nil, err
		}
		return &ELet{Name: n.text, V: v, Body: body}, nil
	}
	return p.iff()
}

func (p *lexer) iff() (Expr, error) {
	l, err := p.impl()
	if err != nil {
		return nil, err
	}
	for p.isOp("<==>") {
		p.pos++
		r, err := p.impl()
		if err != nil {
			return nil, err
		}
		l = &EBin{Op: "<==>", X: l, Y: r}
	}
	return l, nil
}

func (p *lexer) impl() (Expr, error) {
	l, err := p.ternary()
	if err != nil {
		return nil, err
	}
	if p.isOp("==>") {
		p.pos++
		var r Expr
		if p.isID("forall") || p.isID("exists") || p.isID("let") {
			r, err = p.expr()
		} else {
			r, err = p.impl()
		}
		if err != nil {
			return nil, err
		}
		return &EBin{Op: "==>", X: l, Y: r}, nil
	}
	return l, nil
}

func (p *lexer) ternary() (Expr, error) {
	c, err := p.orExpr()
	if err != nil {
		return nil, err
	}
	if p.isOp("?") {
		p.pos++
		a, err := p.ternary()
		if err != nil {
			return nil, err
		}
		if err := p.expect(":"); err != nil {
			return nil, err
		}
		b, err := p.ternary()
		if err != nil {
			return nil, err
		}
		return &ECond{C: c, A: a, B: b}, nil
	}
	return c, nil
}

func (p *lexer) binLevel(ops []string, sub func() (Expr, error)) (Expr, error) {
	l, err := sub()
	if err != nil {
		return nil, err
	}
	for {
		found := ""
		for _, op := range ops {
			if p.isOp(op) {
				found = op
			}
		}
		if found == "" {
			return l, nil
		}
		p.pos++
		var r Expr
		if p.isID("forall") || p.isID("exists") {
			r, err = p.expr()
		} else {
			r, err = sub()
		}
		if err != nil {
			return nil, err
		}
		l = &EBin{Op: found, X: l, Y: r}
	}
}

func (p *lexer) orExpr() (Expr, error) {
	return p.binLevel([]string{"||"}, p.andExpr)
}
func (p *lexer) andExpr() (Expr, error) {
	return p.binLevel([]string{"&&"}, p.cmpExpr)
}
func (p *lexer) cmpExpr() (Expr, error) {
	l, err := p.addExpr()
	if err != nil {
		return nil, err
	}
	for _, op := range []string{"==", "!=", "<=", ">=", "<", ">"} {
		if p.isOp(op) {
			p.pos++
			r, err := p.addExpr()
			if err != nil {
				return nil, err
			}
			return &EBin{Op: op, X: l, Y: r}, nil
		}
	}
	return l, nil
}
func (p *lexer) addExpr() (Expr, error) {
	return p.binLevel([]string{"+", "-"}, p.mulExpr)
}
func (p *lexer) mulExpr() (Expr, error) {
	return p.binLevel([]string{"*", "/", "%"}, p.unary)
}

func (p *lexer) unary() (Expr, error) {
	if p.isOp("!") {
		p.pos++
		x, err := p.unary()
		if err != nil {
			return nil, err
		}
		return &EUn{Op: "!", X: x}, nil
	}
	if p.isOp("-") {
		p.pos++
		x, err := p.unary()
		if err != nil {
			return nil, err
		}
		return &EUn{Op: "-", X: x}, nil
	}
	if p.isOp("*") {
		p.pos++
		x, err := p.unary()
		if err != nil {
			return nil, err
		}
		return &EUn{Op: "*", X: x}, nil
	}
	if p.isOp("&") {
		p.pos++
		x, err := p.unary()
		if err != nil {
			return nil, err
		}
		return &EUn{Op: "&", X: x}, nil
	}
	return p.postfix()
}

func (p *lexer) postfix() (Expr, error) {
	x, err := p.primary()
	if err != nil {
		return nil, err
	}
	for {
		switch {
		case p.isOp("."):
			p.pos++
			t := p.next()
			if t.kind != "id" && t.kind != "int" {
				return nil, fmt.Errorf("expected field name after '.'")
			}
			// qualified call pkg.Func(...) or method-style builtin
			if p.isOp("(") {
				if id, ok := x.(*EIdent); ok {
					p.pos++
					args, err := p.args()
					if err != nil {
						return nil, err
					}
					x = &ECall{Fun: id.Name + "." + t.text, Args: args}
					continue
				}
			}
			x = &ESel{X: x, Name: t.text}
		case p.isOp("["):
			p.pos++
			var lo, hi Expr
			if !p.isOp(":") {
				lo, err = p.expr()
				if err != nil {
					return nil, err
				}
			}
			if p.isOp(":") {
				p.pos++
				if !p.isOp("]") {
					hi, err = p.expr()
					if err != nil {
						return nil, err
					}
				}
				if err := p.expect("]"); err != nil {
					return nil, err
				}
				x = &ESlice{X: x, Lo: lo, Hi: hi}
				continue
			}
			if err := p.expect("]"); err != nil {
				return nil, err
			}
			x = &EIdx{X: x, I: lo}
		default:
			return x, nil
		}
	}
}

func (p *lexer) args() ([]Expr, error) {
	var args []Expr
	if p.isOp(")") {
		p.pos++
		return args, nil
	}
	for {
		a, err := p.expr()
		if err != nil {
			return nil, err
		}
		args = append(args, a)
		if p.isOp(",") {
			p.pos++
			continue
		}
		if err := p.expect(")"); err != nil {
			return nil, err
		}
		return args, nil
	}
}

func (p *lexer) primary() (Expr, error) {
	t := p.next()
	switch t.kind {
	case "int":
		return &EInt{V: t.text}, nil
	case "str":
		return &EStr{V: t.text}, nil
	case "iter":
		n := 0
		if t.text != "i" && t.text != "" {
			v, err := strconv.Atoi(strings.TrimPrefix(t.text, "i"))
			if err != nil {
				return nil, fmt.Errorf("bad iteration counter #%s", t.text)
			}
			n = v
		}
		return &EIter{Loop: n}, nil
	case "id":
		switch t.text {
		case "true":
			return &EBool{V: true}, nil
		case "false":
			return &EBool{V: false}, nil
		case "nil":
			return &ENil{}, nil
		case "old":
			if err := p.expect("("); err != nil {
				return nil, err
			}
			x, err := p.expr()
			if err != nil {
				return nil, err
			}
			if err := p.expect(")"); err != nil {
				return nil, err
			}
			return &EOld{X: x}, nil
		}
		name := t.text
		if p.isOp("@") {
			p.pos++
			n := p.next()
			if n.kind != "int" {
				return nil, fmt.Errorf("expected number after '@'")
			}
			name += "@" + n.text
		}
		if p.isOp("(") {
			p.pos++
			args, err := p.args()
			if err != nil {
				return nil, err
			}
			return &ECall{Fun: name, Args: args}, nil
		}
		return &EIdent{Name: name}, nil
	case "op":
		if t.text == "(" {
			x, err := p.expr()
			if err != nil {
				return nil, err
			}
			if err := p.expect(")"); err != nil {
				return nil, err
			}
			return x, nil
		}
	}
	return nil, fmt.Errorf("unexpected %q", t.text)
}

// instantiate replaces "exists v :: body" by "let v : w in body" for the given witnesses.
func instantiate(ex Expr, w map[string]Expr) Expr {
	switch n := ex.(type) {
	case *EQuant:
		if !n.Forall {
			var rest []QVar
			body := instantiate(n.Body, w)
			for i := len(n.Vars) - 1; i >= 0; i-- {
				if we, ok := w[n.Vars[i].Name]; ok {
					body = &ELet{Name: n.Vars[i].Name, V: we, Body: body}
				} else {
					rest = append([]QVar{n.Vars[i]}, rest...)
				}
			}
			if len(rest) == 0 {
				return body
			}
			return &EQuant{Forall: false, Vars: rest, Body: body}
		}
		return &EQuant{Forall: true, Vars: n.Vars, Body: instantiate(n.Body, w)}
	case *EBin:
		if n.Op == "==>" {
			return &EBin{Op: n.Op, X: n.X, Y: instantiate(n.Y, w)}
		}
		if n.Op == "&&" || n.Op == "||" {
			return &EBin{Op: n.Op, X: instantiate(n.X, w), Y: instantiate(n.Y, w)}
		}
	case *ELet:
		return &ELet{Name: n.Name, V: n.V, Body: instantiate(n.Body, w)}
	case *ECond:
		return &ECond{C: n.C, A: instantiate(n.A, w), B: instantiate(n.B, w)}
	}
	return ex
}
