package main

// Calls: builtins, modelled library functions, contracted callees, inlining.

import (
	"os"
	"fmt"
	"go/token"
	"go/types"
	"regexp"
	"sort"
	"strconv"
	"strings"

	"golang.org/x/tools/go/ssa"
)

func (x *Exec) doCall(st *State, fr *Frame, cc *ssa.CallCommon, in ssa.Instruction, k func(*State, Val)) {
	var args []Val
	for _, a := range cc.Args {
		args = append(args, x.val(st, fr, a))
	}
	var fv Val
	if _, isB := cc.Value.(*ssa.Builtin); !isB {
		fv = x.val(st, fr, cc.Value)
	}
	x.callCommon(st, fr, cc, args, fv, in, k)
}

func resultType(cc *ssa.CallCommon) types.Type {
	sig := cc.Signature()
	switch sig.Results().Len() {
	case 0:
		return nil
	case 1:
		return sig.Results().At(0).Type()
	}
	return sig.Results()
}

func (x *Exec) callCommon(st *State, fr *Frame, cc *ssa.CallCommon, args []Val, fv Val, in ssa.Instruction, k func(*State, Val)) {
	pos := token.NoPos
	if in != nil {
		pos = in.Pos()
	}
	if b, ok := cc.Value.(*ssa.Builtin); ok {
		k(st, x.builtin(st, fr, b, cc, args, in))
		return
	}
	if cc.IsInvoke() {
		key := ifaceMethodKey(cc)
		// nil interface receiver panics
		x.emit(st, "safety:nil-iface-call", "safety", fmt.Sprintf("(not (= (i_tag %s) 0))", fv.Term), nil, pos)
		st.assume(fmt.Sprintf("(not (= (i_tag %s) 0))", fv.Term))
		// the dynamic type of the receiver is known (the value was boxed on this path): the call is static
		if callee, recv, ok := x.devirtualize(fv, cc); ok {
			ckey := funcKey(callee)
			all := append([]Val{recv}, args...)
			if con := x.Lib.Funcs[ckey]; con != nil {
				x.contractCall(st, fr, con, callee, cc, all, in, k)
				return
			}
			if _, inRepo := x.P.Funcs[ckey]; inRepo && callee.Blocks != nil {
				x.inlineCall(st, fr, callee, all, nil, in, k)
				return
			}
		}
		if con := x.Lib.Funcs[key]; con != nil {
			x.contractCall(st, fr, con, nil, cc, append([]Val{fv}, args...), in, k)
			return
		}
		if v, ok := x.modelInvoke(st, fr, key, cc, fv, args, in); ok {
			k(st, v)
			return
		}
		x.opaqueCall(st, key, cc, append([]Val{fv}, args...), k)
		return
	}
	callee := cc.StaticCallee()
	if callee == nil {
		// call through a function value
		if ci, ok := x.closures[fv.Term]; ok {
			x.inlineCall(st, fr, ci.fn, args, ci.binds, in, k)
			return
		}
		x.emit(st, "safety:nil-func-call", "safety", fmt.Sprintf("(not (= %s 0))", fv.Term), nil, pos)
		key := funcValueKey(cc.Value.Type())
		if con := x.Lib.Funcs[key]; con != nil {
			// the function value itself is `self` in the contract of calls through a function type
			x.selfVal = &fv
			x.contractCall(st, fr, con, nil, cc, args, in, k)
			return
		}
		x.opaqueCall(st, key, cc, args, k)
		return
	}
	key := funcKey(callee)
	var binds []Val
	if mc, ok := cc.Value.(*ssa.MakeClosure); ok {
		for _, b := range mc.Bindings {
			binds = append(binds, x.val(st, fr, b))
		}
	}
	if wk := walkKey(key, cc); wk != "" && x.Lib.Funcs[wk] != nil {
		if ci, ok := x.closures[args[1].Term]; ok {
			x.contractCall(st, fr, x.Lib.Funcs[wk], callee, cc, append(append([]Val{}, args...), ci.binds...), in, k)
			return
		}
	}
	if con := x.Lib.Funcs[key]; con != nil && (con.Extern || callee.Blocks == nil || fr.depth > 0 || key != x.curFn || true) {
		if !(con.Extern == false && callee.Blocks != nil && len(con.Ensures) == 0 && len(con.Requires) == 0 && !con.NoInline && !con.Pure && !con.HasAssigns) {
			x.contractCall(st, fr, con, callee, cc, args, in, k)
			return
		}
	}
	if v, ok := x.modelCall(st, fr, key, cc, args, in); ok {
		k(st, v)
		return
	}
	if _, inRepo := x.P.Funcs[key]; inRepo && callee.Blocks != nil {
		x.inlineCall(st, fr, callee, args, binds, in, k)
		return
	}
	x.opaqueCall(st, key, cc, args, k)
}

var mkIfaceRe = regexp.MustCompile(`^\(mkIface (\d+) (.+)\)$`)

func (x *Exec) devirtualize(fv Val, cc *ssa.CallCommon) (*ssa.Function, Val, bool) {
	m := mkIfaceRe.FindStringSubmatch(fv.Term)
	if m == nil {
		return nil, Val{}, false
	}
	id, _ := strconv.Atoi(m[1])
	if id < 1 || id > len(x.C.typeByID) {
		return nil, Val{}, false
	}
	t := x.C.typeByID[id-1]
	sel := types.NewMethodSet(t).Lookup(cc.Method.Pkg(), cc.Method.Name())
	if sel == nil {
		return nil, Val{}, false
	}
	callee := x.P.Prog.MethodValue(sel)
	if callee == nil || callee.Synthetic != "" {
		return nil, Val{}, false
	}
	payload := m[2]
	if s := x.C.sortOf(t); s != "Int" {
		_, unbox := x.C.boxFuncs(s)
		payload = fmt.Sprintf("(%s %s)", unbox, payload)
	}
	return callee, Val{T: t, Term: payload}, true
}

// opaqueCall: no model and no contract. Results are arbitrary, effects unknown (class A).
func (x *Exec) opaqueCall(st *State, key string, cc *ssa.CallCommon, args []Val, k func(*State, Val)) {
	x.abstr["opaque call "+key] = true
	st.taint = true
	pre := st.clone()
	ms := newModSet()
	// effects: anything reachable from reference-typed arguments
	for _, a := range args {
		if a.T == nil {
			continue
		}
		switch a.T.Underlying().(type) {
		case *types.Pointer, *types.Interface, *types.Map, *types.Slice, *types.Signature:
			if !isByteSlice(a.T) {
				ms.all = true
			}
		}
	}
	x.applyMods(st, pre, ms, nil)
	rt := resultType(cc)
	if rt == nil {
		k(st, Val{})
		return
	}
	k(st, x.havocTuple(st, rt))
}

// ---------------------------------------------------------------------------
// builtins

func (x *Exec) builtin(st *State, fr *Frame, b *ssa.Builtin, cc *ssa.CallCommon, args []Val, in ssa.Instruction) Val {
	rt := resultType(cc)
	switch b.Name() {
	case "ssa:deferstack":
		return Val{T: rt, Term: "0"}
	case "ssa:wrapnilchk":
		x.nilCheck(st, args[0], in)
		return args[0]
	case "len":
		a := args[0]
		switch x.C.sortOf(a.T) {
		case "String":
			return Val{T: tInt, Term: "(str.len " + a.Term + ")"}
		case "Slice":
			return Val{T: tInt, Term: "(s_len " + a.Term + ")"}
		case "Int":
			if mt, ok := a.T.Underlying().(*types.Map); ok {
				return Val{T: tInt, Term: x.mapLen(st, mt, a.Term)}
			}
		}
	case "cap":
		if x.C.sortOf(args[0].T) == "Slice" {
			return Val{T: tInt, Term: "(s_cap " + args[0].Term + ")"}
		}
	case "append":
		return x.doAppend(st, fr, cc, args, in)
	case "delete":
		m, kx := args[0], args[1]
		mt := m.T.Underlying().(*types.Map)
		_, dn := x.C.mapHeapNames(mt)
		_, ds := x.mapSorts(mt)
		dh := x.heap(st, dn, ds)
		x.setHeap(st, dn, ds, fmt.Sprintf("(store %s %s (store (select %s %s) %s false))", dh, m.Term, dh, m.Term, kx.Term))
		return Val{}
	case "print", "println":
		return Val{}
	case "recover":
		return Val{T: rt, Term: "nilI"}
	}
	x.abstr["builtin "+b.Name()] = true
	st.taint = true
	if rt == nil {
		return Val{}
	}
	return x.havocTuple(st, rt)
}

// staticLen: number of elements when the slice is a whole freshly built array (varargs / literal)
func staticLen(v ssa.Value) (int64, bool) {
	if s, ok := v.(*ssa.Slice); ok && s.Low == nil && s.High == nil {
		if pt, ok := s.X.Type().Underlying().(*types.Pointer); ok {
			if arr, ok := pt.Elem().Underlying().(*types.Array); ok {
				return arr.Len(), true
			}
		}
	}
	if c, ok := v.(*ssa.Const); ok && c.Value == nil {
		return 0, true
	}
	return 0, false
}

func (x *Exec) doAppend(st *State, fr *Frame, cc *ssa.CallCommon, args []Val, in ssa.Instruction) Val {
	s, t := args[0], args[1]
	rt := cc.Args[0].Type()
	if isByteSlice(rt) {
		if x.C.sortOf(t.T) == "String" {
			return Val{T: rt, Term: fmt.Sprintf("(str.++ %s %s)", s.Term, t.Term)}
		}
		x.abstr["append to []byte"] = true
		st.taint = true
		return x.havocVal(st, "bytes", rt)
	}
	et := rt.Underlying().(*types.Slice).Elem()
	name, srt := x.C.elemHeapName(et), x.C.elemHeapSort(et)
	E := x.heap(st, name, srt)
	es := x.C.sortOf(et)
	n, known := staticLen(cc.Args[1])
	tlen := fmt.Sprintf("(s_len %s)", t.Term)
	if known {
		tlen = fmt.Sprintf("%d", n)
		if n == 0 {
			return s
		}
	}
	sTerm := x.bind(st, "apps", "Slice", s.Term)
	inplace := x.C.freshName("inplace")
	st.def(fmt.Sprintf("(define-fun %s () Bool (<= (+ (s_len %s) %s) (s_cap %s)))", inplace, sTerm, tlen, sTerm))
	nb := x.newRef(st)
	ncap := x.newSym(st, "newcap", "Int")
	st.assume(fmt.Sprintf("(>= %s (+ (s_len %s) %s))", ncap, sTerm, tlen))
	res := x.C.freshName("appres")
	st.def(fmt.Sprintf("(define-fun %s () Slice (ite %s (mkSlice (s_base %s) (+ (s_len %s) %s) (s_cap %s)) (mkSlice %s (+ (s_len %s) %s) %s)))",
		res, inplace, sTerm, sTerm, tlen, sTerm, nb, sTerm, tlen, ncap))
	// frame: an in-place append writes into the backing array of s
	if top := x.top; top != nil && top.con != nil && top.con.HasAssigns && !assignsAllows(top.con, name) {
		x.emit(st, "frame", "frame", fmt.Sprintf("(=> %s (>= (s_base %s) %s))", inplace, sTerm, top.allocIn), nil, in.Pos())
	}
	// contents of the copied prefix in the reallocating case
	row := x.newSym(st, "newrow", fmt.Sprintf("(Array Int %s)", es))
	st.assume(fmt.Sprintf("(forall ((i Int)) (! (=> (and (<= 0 i) (< i (s_len %s))) (= (select %s i) (select (select %s (s_base %s)) i))) :pattern ((select %s i))))", sTerm, row, E, sTerm, row))
	if known {
		// element-wise stores
		rowIn := fmt.Sprintf("(select %s (s_base %s))", E, sTerm)
		rowOut := row
		tb := fmt.Sprintf("(select %s (s_base %s))", E, t.Term)
		for j := int64(0); j < n; j++ {
			ev := fmt.Sprintf("(select %s %d)", tb, j)
			rowIn = fmt.Sprintf("(store %s (+ (s_len %s) %d) %s)", rowIn, sTerm, j, ev)
			rowOut = fmt.Sprintf("(store %s (+ (s_len %s) %d) %s)", rowOut, sTerm, j, ev)
		}
		x.setHeap(st, name, srt, fmt.Sprintf("(ite %s (store %s (s_base %s) %s) (store %s %s %s))", inplace, E, sTerm, rowIn, E, nb, rowOut))
	} else {
		// general case: quantified description of the appended part
		E2 := x.newSym(st, name, srt)
		tTerm := x.bind(st, "appt", "Slice", t.Term)
		st.assume(fmt.Sprintf("(forall ((r Int)) (! (=> (not (= r (s_base %s))) (= (select %s r) (select %s r))) :pattern ((select %s r))))", res, E2, E, E2))
		st.assume(fmt.Sprintf("(forall ((i Int)) (! (=> (and (<= 0 i) (< i (s_len %s))) (= (select (select %s (s_base %s)) i) (select (select %s (s_base %s)) i))) :pattern ((select (select %s (s_base %s)) i))))",
			sTerm, E2, res, E, sTerm, E2, res))
		st.assume(fmt.Sprintf("(forall ((j Int)) (! (=> (and (<= 0 j) (< j (s_len %s))) (= (select (select %s (s_base %s)) (+ (s_len %s) j)) (select (select %s (s_base %s)) j))) :pattern ((select (select %s (s_base %s)) j))))",
			tTerm, E2, res, sTerm, E, tTerm, E, tTerm))
		st.assume(fmt.Sprintf("(=> %s (forall ((i Int)) (! (=> (or (< i (s_len %s)) (>= i (+ (s_len %s) (s_len %s)))) (= (select (select %s (s_base %s)) i) (select (select %s (s_base %s)) i))) :pattern ((select (select %s (s_base %s)) i)))))",
			inplace, sTerm, sTerm, tTerm, E2, sTerm, E, sTerm, E2, sTerm))
		x.heapSort[name] = srt
		st.heaps[name] = E2
	}
	return Val{T: rt, Term: res}
}

// ---------------------------------------------------------------------------
// contracted callees

func (x *Exec) calleeParamNames(con *FuncContract, callee *ssa.Function, cc *ssa.CallCommon) []string {
	if len(con.Names) > 0 {
		return con.Names
	}
	var names []string
	if callee != nil && len(callee.Params) > 0 {
		for _, p := range callee.Params {
			names = append(names, p.Name())
		}
		return names
	}
	sig := cc.Signature()
	if cc.IsInvoke() {
		names = append(names, "recv")
	} else if sig.Recv() != nil {
		names = append(names, sig.Recv().Name())
	}
	for i := 0; i < sig.Params().Len(); i++ {
		names = append(names, sig.Params().At(i).Name())
	}
	return names
}

func (x *Exec) contractCall(st *State, fr *Frame, con *FuncContract, callee *ssa.Function, cc *ssa.CallCommon, args []Val, in ssa.Instruction, k func(*State, Val)) {
	pos := token.NoPos
	if in != nil {
		pos = in.Pos()
	}
	pnames := x.calleeParamNames(con, callee, cc)
	names := map[string]Val{}
	for i, n := range pnames {
		if i < len(args) && n != "" && n != "_" {
			names[n] = args[i]
		}
	}
	if x.selfVal != nil {
		names["self"] = *x.selfVal
		x.selfVal = nil
	}
	// structured pointer arguments must be plain references to be named in a contract
	for n, v := range names {
		if v.Loc != nil {
			if t, ok := x.termOf(st, v); ok {
				v.Term = t
				v.Loc = nil
				names[n] = v
			} else {
				mat := x.materialize(st, v)
				names[n] = mat
			}
		}
	}
	pkg := con.Pkg
	if pkg == "" && callee != nil && callee.Pkg != nil {
		pkg = shortPkg(callee.Pkg.Pkg.Path())
	}
	if con.Trusted != "" {
		x.C.used[con.Trusted] = true
	}
	if con.Extern {
		x.C.used["extern:"+con.Key] = true
	}
	// requires: proved at the call site
	for _, r := range con.Requires {
		var unf []string
		env := &Env{x: x, st: st, names: names, bound: map[string]Val{}, pkg: pkg, frame: fr, unfold: &unf}
		t, err := env.evalBool(r.Expr)
		if err != nil {
			x.bail("call to %s: requires %s: %v", con.Key, r.Label, err)
		}
		x.emit(st, fmt.Sprintf("call:%s/%s", con.Key, r.Label), "requires@call", t, unf, pos)
		st.assume(t)
	}
	pre := st.clone()
	// effects
	ms := newModSet()
	full := map[string]bool{}
	x.contractMods(con, ms)
	for _, a := range con.Assigns {
		full[a] = true
	}
	if callee != nil && !con.Extern && con.Trusted == "" {
		if s, ok := x.mods[callee]; ok {
			ms.union(s)
		}
	}
	if con.ImplOf != "" && os.Getenv("GOVC_CANARY_IMPLMODS") == "" { // (env var: engine canary, re-creates a fixed unsoundness)
		// interface contract derived from a concrete /repo method (implements directive): its effects are the
		// concrete method's
		if f := x.P.Funcs[con.ImplOf]; f != nil {
			if s, ok := x.mods[f]; ok {
				ms.union(s)
			}
		}
	}
	if con.Trusted != "" && !con.Extern {
		x.C.used["assumed contract of /repo function "+con.Key+" ("+con.Trusted+")"] = true
	}
	if con.Extern && !con.Pure && !con.HasAssigns {
		// an extern without a frame clause is assumed not to write modelled memory (listed as an assumption)
		x.C.used["frame-assumed:"+con.Key] = true
	}
	// what a contracted callee writes outside its explicit assigns clause is memory it allocated itself (its proved
	// frame), i.e. memory above the allocation frontier at the time of the call -- not merely above the caller's
	// entry frontier, which is the bound for the caller's own stores inside a loop
	ms.direct = map[string]bool{}
	x.applyMods(st, pre, ms, full)
	type decLink struct {
		ref string
		t   types.Type
	}
	var links []decLink
	for _, dn := range con.Decodes {
		for i, n := range pnames {
			if n == dn && i < len(args) {
				var src ssa.Value
				ai := i
				if cc.IsInvoke() {
					ai = i - 1
				}
				if ai >= 0 && ai < len(cc.Args) {
					src = cc.Args[ai]
				}
				if ref, t := x.decodeInto(st, pre, args[i], src, fr); t != nil {
					links = append(links, decLink{ref, t})
				}
			}
		}
	}
	// results
	rt := resultType(cc)
	var res Val
	var rvals []Val
	if rt != nil {
		if con.Pure && (con.Extern || con.Trusted != "") {
			res = x.pureResults(st, con, rt, args)
		} else {
			res = x.havocTuple(st, rt)
			res.Taint = false
		}
		if res.Tup != nil {
			rvals = res.Tup
			for i := range rvals {
				rvals[i].Taint = false
			}
		} else {
			rvals = []Val{res}
		}
	}
	// what a decoder produced is a deterministic function of its source (first argument) and the target type
	if len(links) > 0 && len(args) > 0 {
		if srcT, ok := x.termOf(st, args[0]); ok {
			okTerm := "true"
			if n := len(rvals); n > 0 && isErrorType(rvals[n-1].T) {
				okTerm = fmt.Sprintf("(= %s nilI)", rvals[n-1].Term)
			}
			for _, l := range links {
				okF, valF := x.decodedFuncs(l.t, x.C.sortOf(args[0].T))
				cur := x.loadLoc(st, &Loc{Kind: locHeap, Ref: l.ref, Root: l.t})
				st.assume(fmt.Sprintf("(= %s (%s %s))", okTerm, okF, srcT))
				st.assume(fmt.Sprintf("(=> %s (= %s (%s %s)))", okTerm, cur.Term, valF, srcT))
			}
		}
	}
	rnames := con.ResNames
	if len(rnames) == 0 {
		sig := cc.Signature()
		for i := 0; i < sig.Results().Len(); i++ {
			rnames = append(rnames, sig.Results().At(i).Name())
		}
	}
	for i, rv := range rvals {
		if i < len(rnames) && rnames[i] != "" && rnames[i] != "_" {
			names[rnames[i]] = rv
		}
		names[fmt.Sprintf("result%d", i)] = rv
		if len(rvals) == 1 {
			names["result"] = rv
		}
	}
	for _, c := range con.Ensures {
		if x.Lib.OpenFindings[con.Key+"/"+c.Label] {
			// a clause recorded as violated by the code (open known finding) is not proved, so it must not be
			// assumed at call sites either (it would contradict what the code does and make callers vacuous)
			x.C.used["not assumed at call sites (open known finding): "+con.Key+"/"+c.Label] = true
			continue
		}
		var unf []string
		env := &Env{x: x, st: st, old: pre, names: names, bound: map[string]Val{}, pkg: pkg, frame: nil, unfold: &unf}
		// fresh() in a callee postcondition means: allocated during the call
		env.frame = &Frame{allocIn: pre.alloc, id: -1}
		t, err := env.evalBool(c.Expr)
		if err != nil {
			x.bail("call to %s: ensures %s: %v", con.Key, c.Label, err)
		}
		st.assume(t)
		for _, u := range unf {
			st.assume(u)
		}
	}
	k(st, res)
}

// materialize gives a structured pointer (into a local cell) an address in the heap so that
// a callee contract can name it: the pointee is copied into a fresh heap object. Writes by
// the callee are not propagated back (callees under contract that write through such a
// pointer must list the heap in assigns; the cell is then havocked by the caller).
func (x *Exec) materialize(st *State, v Val) Val {
	l := v.Loc
	if l.Kind == locNone || l.Kind == locArr {
		x.abstr["abstract pointer passed to contracted callee"] = true
		st.taint = true
		r := x.newSym(st, "absptr", "Int")
		st.assume(fmt.Sprintf("(> %s 0)", r))
		return Val{T: v.T, Term: r}
	}
	cur := x.loadLoc(st, l)
	ref := x.newRef(st)
	et := l.typeAt()
	x.storeLoc(st, &Loc{Kind: locHeap, Ref: ref, Root: et}, cur)
	x.abstr["interior pointer passed to contracted callee (copied)"] = true
	return Val{T: v.T, Term: ref}
}

// pureResults: results of a pure extern are uninterpreted functions of its arguments.
func (x *Exec) pureResults(st *State, con *FuncContract, rt types.Type, args []Val) Val {
	var ps, ts []string
	for _, a := range args {
		t, ok := x.termOf(st, a)
		if !ok {
			t = x.materialize(st, a).Term
		}
		ps = append(ps, x.C.sortOf(a.T))
		ts = append(ts, t)
	}
	mk := func(i int, t types.Type) Val {
		name := fmt.Sprintf("ext_%s_%d", mangle(con.Key), i)
		x.C.decl(fmt.Sprintf("(declare-fun %s (%s) %s)", name, strings.Join(ps, " "), x.C.sortOf(t)))
		term := name
		if len(ts) > 0 {
			term = fmt.Sprintf("(%s %s)", name, strings.Join(ts, " "))
		}
		v := Val{T: t, Term: term}
		st.assume(x.typeInv(t, term, 1))
		x.assumeExisting(st, v)
		return v
	}
	if tup, ok := rt.(*types.Tuple); ok {
		var vs []Val
		for i := 0; i < tup.Len(); i++ {
			vs = append(vs, mk(i, tup.At(i).Type()))
		}
		return Val{T: rt, Tup: vs}
	}
	return mk(0, rt)
}

// applyAlias: contract-level name of a pure extern result: alias(args...)
func (x *Exec) applyAlias(e *Env, name string, argEx []Expr) (Val, bool) {
	for _, con := range x.Lib.Funcs {
		for i, a := range con.Aliases {
			if a != name {
				continue
			}
			var ps, ts []string
			for _, ax := range argEx {
				v := e.eval(ax)
				ps = append(ps, e.sortOfVal(v))
				ts = append(ts, v.Term)
			}
			rt := x.aliasResultType(con, i)
			fname := fmt.Sprintf("ext_%s_%d", mangle(con.Key), i)
			x.C.decl(fmt.Sprintf("(declare-fun %s (%s) %s)", fname, strings.Join(ps, " "), x.C.sortOf(rt)))
			term := fname
			if len(ts) > 0 {
				term = fmt.Sprintf("(%s %s)", fname, strings.Join(ts, " "))
			}
			return Val{T: rt, Term: term}, true
		}
	}
	return Val{}, false
}

// aliasResultType: type text of result i of an extern, found from the SSA program.
func (x *Exec) aliasResultType(con *FuncContract, i int) types.Type {
	if x.externTypes == nil {
		x.scanExterns()
	}
	if t, ok := x.externTypes[con.Key]; ok && i < len(t) {
		return t[i]
	}
	panic(evalError{fmt.Sprintf("alias of %s: the function is not called anywhere in /repo, result types unknown", con.Key)})
}

// scanExterns records the result types of every function / interface method called from /repo.
func (x *Exec) scanExterns() {
	x.externTypes = map[string][]types.Type{}
	for _, f := range x.P.Funcs {
		for _, b := range f.Blocks {
			for _, in := range b.Instrs {
				ci, ok := in.(ssa.CallInstruction)
				if !ok {
					continue
				}
				cc := ci.Common()
				key := ""
				if cc.IsInvoke() {
					key = ifaceMethodKey(cc)
				} else if c := cc.StaticCallee(); c != nil {
					key = funcKey(c)
				} else {
					continue
				}
				var ts []types.Type
				res := cc.Signature().Results()
				for i := 0; i < res.Len(); i++ {
					ts = append(ts, res.At(i).Type())
				}
				x.externTypes[key] = ts
			}
		}
	}
}

// ---------------------------------------------------------------------------
// inlining

func (x *Exec) inlineCall(st *State, fr *Frame, callee *ssa.Function, args []Val, binds []Val, in ssa.Instruction, k func(*State, Val)) {
	if fr.depth >= 8 {
		x.bail("inlining too deep at %s", callee)
	}
	for f := fr; f != nil; f = f.parent {
		if f.fn == callee {
			x.bail("recursive call to %s needs a contract", funcKey(callee))
		}
	}
	nf := x.newFrame(callee, nil, fr.depth+1)
	nf.inlined = true
	nf.parent = fr
	nf.allocIn = st.alloc
	if len(binds) != len(callee.FreeVars) {
		x.bail("closure bindings mismatch for %s", callee)
	}
	x.bindParams(st, nf, args, binds)
	nf.entry = st
	nf.ret = func(st *State, results []Val) {
		switch len(results) {
		case 0:
			k(st, Val{})
		case 1:
			k(st, results[0])
		default:
			k(st, Val{T: callee.Signature.Results(), Tup: results})
		}
	}
	x.runBlock(st, nf, callee.Blocks[0], nil)
}

// decodeInto models a library decoder writing through an interface argument that boxes a pointer
// (xml.Decoder.Decode(v), Prop.Decode(v), ...): the pointee is overwritten with arbitrary values of its
// type, and everything reachable from it may be freshly allocated with arbitrary contents.
// decodedFuncs: uninterpreted "what decoding source s into a T yields" (value and success)
func (x *Exec) decodedFuncs(t types.Type, srcSort string) (okF, valF string) {
	m := mangle(t.String()) + "_from_" + mangle(srcSort)
	okF, valF = "decodedOk_"+m, "decoded_"+m
	x.C.decl(fmt.Sprintf("(declare-fun %s (%s) Bool)", okF, srcSort))
	x.C.decl(fmt.Sprintf("(declare-fun %s (%s) %s)", valF, srcSort, x.C.sortOf(t)))
	return
}

func (x *Exec) decodeInto(st *State, pre *State, arg Val, src ssa.Value, fr *Frame) (string, types.Type) {
	var pt *types.Pointer
	var ref string
	// a variadic argument list built at the call site: every boxed pointer stored into it is a decoding target
	if sl, ok := src.(*ssa.Slice); ok {
		if al, ok := sl.X.(*ssa.Alloc); ok && al.Referrers() != nil {
			var elems []ssa.Value
			for _, r1 := range *al.Referrers() {
				ia, ok := r1.(*ssa.IndexAddr)
				if !ok || ia.Referrers() == nil {
					continue
				}
				for _, r2 := range *ia.Referrers() {
					if sto, ok := r2.(*ssa.Store); ok && sto.Addr == ia {
						elems = append(elems, sto.Val)
					}
				}
			}
			if len(elems) > 0 {
				for _, e := range elems {
					x.decodeInto(st, pre, x.val(st, fr, e), e, fr)
				}
				return "", nil
			}
		}
	}
	switch s := src.(type) {
	case *ssa.MakeInterface:
		if p, ok := s.X.Type().Underlying().(*types.Pointer); ok {
			pt = p
			ref = fmt.Sprintf("(i_val %s)", arg.Term)
			if pv, ok := st.regs[cellKey{fr.id, s.X}]; ok && pv.Loc == nil && pv.Term != "" {
				ref = pv.Term
			}
		}
	}
	if pt == nil {
		if p, ok := arg.T.Underlying().(*types.Pointer); ok && arg.Loc == nil {
			pt = p
			ref = arg.Term
		}
	}
	if pt == nil {
		// an interface value that was boxed earlier on this path (e.g. `var v interface{}; switch ... { v = r.Query }`):
		// the path's term is (mkIface <type id> <ref>) with a constant type id
		var id int
		var payload string
		if n, _ := fmt.Sscanf(arg.Term, "(mkIface %d ", &id); n == 1 && id >= 1 && id <= len(x.C.typeByID) && strings.HasSuffix(arg.Term, ")") {
			if p, ok := x.C.typeByID[id-1].Underlying().(*types.Pointer); ok {
				payload = strings.TrimSuffix(strings.TrimPrefix(arg.Term, fmt.Sprintf("(mkIface %d ", id)), ")")
				pt, ref = p, payload
			}
		}
	}
	if pt == nil {
		// dynamic type unknown: anything may have been written
		x.abstr["decoder target of unknown dynamic type"] = true
		st.taint = true
		ms := newModSet()
		ms.all = true
		x.applyMods(st, pre, ms, nil)
		return "", nil
	}
	// heaps of every type reachable from the pointee: fresh objects with arbitrary contents
	seen := map[string]bool{}
	var heaps []string
	var walk func(t types.Type, depth int)
	walk = func(t types.Type, depth int) {
		if depth > 8 || isTimeType(t) || isByteSlice(t) {
			return
		}
		k := t.String()
		if seen[k] {
			return
		}
		seen[k] = true
		switch u := t.Underlying().(type) {
		case *types.Pointer:
			if isStructT(u.Elem()) {
				st := u.Elem().Underlying().(*types.Struct)
				for i := 0; i < st.NumFields(); i++ {
					heaps = append(heaps, x.C.heapFieldName(u.Elem(), i))
					x.heapSort[x.C.heapFieldName(u.Elem(), i)] = x.C.heapFieldSort(u.Elem(), i)
				}
			} else {
				heaps = append(heaps, x.C.heapCellName(u.Elem()))
				x.heapSort[x.C.heapCellName(u.Elem())] = fmt.Sprintf("(Array Int %s)", x.C.sortOf(u.Elem()))
			}
			walk(u.Elem(), depth+1)
		case *types.Slice:
			heaps = append(heaps, x.C.elemHeapName(u.Elem()))
			x.heapSort[x.C.elemHeapName(u.Elem())] = x.C.elemHeapSort(u.Elem())
			walk(u.Elem(), depth+1)
		case *types.Struct:
			for i := 0; i < u.NumFields(); i++ {
				walk(u.Field(i).Type(), depth+1)
			}
		case *types.Map:
			v, d := x.C.mapHeapNames(u)
			vs, ds := x.mapSorts(u)
			heaps = append(heaps, v, d)
			x.heapSort[v], x.heapSort[d] = vs, ds
			walk(u.Elem(), depth+1)
		}
	}
	walk(pt, 0)
	// allocation frontier moves
	a := x.newSym(st, "alloc", "Int")
	st.assume(fmt.Sprintf("(>= %s %s)", a, st.alloc))
	st.alloc = a
	own := map[string]bool{}
	if isStructT(pt.Elem()) {
		u := pt.Elem().Underlying().(*types.Struct)
		for i := 0; i < u.NumFields(); i++ {
			own[x.C.heapFieldName(pt.Elem(), i)] = true
		}
	} else {
		own[x.C.heapCellName(pt.Elem())] = true
	}
	sort.Strings(heaps)
	for _, name := range heaps {
		srt := x.heapSort[name]
		old := x.heap(st, name, srt)
		x.havocHeap(st, name)
		x.closedAt(st, name)
		nw := st.heaps[name]
		if own[name] {
			st.assume(fmt.Sprintf("(forall ((r Int)) (! (=> (and (< r %s) (not (= r %s))) (= (select %s r) (select %s r))) :pattern ((select %s r))))", pre.alloc, ref, nw, old, nw))
			// type invariant of the overwritten fields
			if hi, ok := x.C.heapVal[name]; ok {
				st.assume(x.typeInv(hi.t, fmt.Sprintf("(select %s %s)", nw, ref), 2))
			}
		} else {
			st.assume(fmt.Sprintf("(forall ((r Int)) (! (=> (< r %s) (= (select %s r) (select %s r))) :pattern ((select %s r))))", pre.alloc, nw, old, nw))
		}
	}
	return ref, pt.Elem()
}
