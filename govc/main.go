package main

import (
	"fmt"
	"os"
)

func main() {
	if len(os.Args) < 2 {
		fmt.Fprintln(os.Stderr, "usage: govc <dump|check|list|replay|selftest> ...")
		os.Exit(2)
	}
	switch os.Args[1] {
	case "dump":
		cmdDump(os.Args[2:])
	case "verify":
		cmdVerify(os.Args[2:])
	case "check":
		cmdCheck(os.Args[2:])
	case "schema-draft":
		cmdSchemaDraft(os.Args[2:])
	case "mutate":
		cmdMutate(os.Args[2:])
	case "replay":
		cmdReplay(os.Args[2:])
	case "rt":
		cmdRT(os.Args[2:])
	case "sweep":
		cmdSweep(os.Args[2:])
	case "ledger":
		cmdLedger(os.Args[2:])
	default:
		fmt.Fprintln(os.Stderr, "unknown command", os.Args[1])
		os.Exit(2)
	}
}
