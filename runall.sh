#!/bin/sh
# runs every claimed check's quick command on /repo's working tree (evidence files are rewritten)
cd /verif
rc=0
for id in $(python3 -c "import json;print(' '.join(c['property_id'] for c in json.load(open('MANIFEST.json'))['checks']))"); do
  bin/govc check --property $id --tier ${1:-quick} || rc=1
done
exit $rc
