#!/usr/bin/env python3
# records the outcome of a property check on a seeded change in /verif/seeded/<id>/meta.json
# usage: seed_record.py <seed-id> <property> <exit code> <check output> <repo the patch was applied to>
import json, sys

sid, prop, rc, out, sr = sys.argv[1:6]
p = '/verif/seeded/%s/meta.json' % sid
m = json.load(open(p))
if sr == '/repo':
    cmd = 'git -C /repo apply patch.diff; /verif/bin/govc check --property %s --tier quick; git -C /repo checkout -- .' % prop
else:
    cmd = ('git -C %s apply patch.diff (%s: scratch worktree of /repo HEAD); GOVC_REPO=%s /verif/bin/govc check --property %s --tier quick; '
           'git -C %s checkout -- .') % (sr, sr, sr, prop, sr)
m['check_result'] = {'cmd': cmd, 'exit': int(rc), 'violations': [l for l in out.splitlines() if l.startswith('VIOLATION')][:6]}
json.dump(m, open(p, 'w'), indent=1)
