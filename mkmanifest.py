#!/usr/bin/env python3
"""Regenerates MANIFEST.json from props.json (claimed properties) and manifest_meta.json."""
import json, subprocess
props = json.load(open('/verif/props.json'))
meta = json.load(open('/verif/manifest_meta.json'))
all_ids = ["C%02d" % i for i in range(1, 20)]
hooks_commits = subprocess.run(["git", "-C", "/repo", "log", "--format=%h %s"], capture_output=True, text=True).stdout.splitlines()
hook_ids = [l.split()[0] for l in hooks_commits if l.split(' ', 1)[1].startswith("verif hooks")]
checks = []
for pid in all_ids:
    if pid not in props or pid not in meta["claimed"]:
        continue
    m = meta["claimed"][pid]
    checks.append({
        "property_id": pid,
        "quick_cmd": "/verif/bin/govc check --property %s --tier quick" % pid,
        "thorough_cmd": "/verif/bin/govc check --property %s --tier thorough" % pid,
        "evidence_file": "/verif/evidence/%s.json" % pid,
        "replay_cmd_template": "/verif/bin/govc replay {path}",
        "engine": "govc",
        "level_claimed": {"category": "proof", "text": m["text"], "design_ref": m.get("design_ref", "DESIGN.md section 6")},
        "level_note": m["note"],
        "technique": m.get("technique", "contract-based deductive verification: weakest-precondition style VCs generated from go/ssa of /repo plus //@ contracts, discharged by z3/cvc5"),
    })
na = []
for pid in all_ids:
    if pid in [c["property_id"] for c in checks]:
        continue
    na.append({"property_id": pid, "reason": meta["not_applicable"].get(pid, "check not built yet (see DESIGN.md section 10 for build order)")})
man = {
    "version": 1,
    "setup_cmd": "cd /verif/govc && GOFLAGS=-mod=mod GOPROXY=off GOSUMDB=off GOTOOLCHAIN=local go build -o /verif/bin/govc .",
    "hooks": {"guard": "verif", "enable": "-tags verif (comment-only contract files contracts_verif.go and straight-line composition harnesses verif_harness.go in each package)",
              "baseline_off_cmd": "cd /repo && GOFLAGS=-mod=mod GOPROXY=off GOSUMDB=off go test -vet=off -count=1 ./...",
              "source_commits": hook_ids, "add_only": True},
    "engines": [{"name": "govc", "path": "/verif/govc", "serves_properties": [c["property_id"] for c in checks],
                 "kind_free_text": "self-written VC generator: go/ssa (naive form) of /repo's working tree + //@ contracts -> SMT-LIB obligations, raced on z3 4.8.12 / z3 5.1.0 / cvc5 1.0"}],
    "checks": checks,
    "notes": meta.get("notes", ""),
    "not_applicable": na,
}
json.dump(man, open('/verif/MANIFEST.json', 'w'), indent=1)
print("checks:", [c["property_id"] for c in checks])
