package caldav

// Demonstrations of the genuine defects found while verifying C06/C08/C16/C19 (see
// /verif/known_findings.json). Each test states the behaviour the property demands; it fails
// on the pinned tree and passes after the corresponding "fix:" commit. Run with
//   go test -overlay <(echo '{"Replace":{"/repo/caldav/zz_findings_test.go":"/verif/findings/caldav_findings_test.go"}}') ...
// (see /verif/findings/run.sh).

import (
	"context"
	"fmt"
	"net/http/httptest"
	"strings"
	"testing"
	"time"

	"github.com/emersion/go-ical"
)

func mustCal(t *testing.T, s string) *ical.Calendar {
	t.Helper()
	cal, err := ical.NewDecoder(strings.NewReader(strings.ReplaceAll(s, "\n", "\r\n"))).Decode()
	if err != nil {
		t.Fatal(err)
	}
	return cal
}

const evCal = `BEGIN:VCALENDAR
VERSION:2.0
PRODID:-//x//y//EN
BEGIN:VEVENT
UID:1
DTSTAMP:20240101T000000Z
DTSTART:20240101T100000Z
DTEND:20240101T110000Z
SUMMARY:hello
END:VEVENT
END:VCALENDAR
`

func TestFindingC19EmptyComponentName(t *testing.T) {
	cal := ical.NewCalendar()
	cal.Children = []*ical.Component{ical.NewComponent(""), ical.NewComponent("VEVENT")}
	if _, _, err := ValidateCalendarObject(cal); err == nil {
		t.Fatal("components of two different types (\"\" and VEVENT) accepted")
	}
}

func TestFindingC06IsNotDefinedComponentExists(t *testing.T) {
	co := &CalendarObject{Data: mustCal(t, evCal)}
	q := CompFilter{Name: "VCALENDAR", Comps: []CompFilter{{Name: "VEVENT", IsNotDefined: true}}}
	ok, err := Match(q, co)
	if err != nil || ok {
		t.Fatalf("is-not-defined VEVENT matched an object that has a VEVENT: %v %v", ok, err)
	}
}

func TestFindingC06IsNotDefinedPropertyExists(t *testing.T) {
	co := &CalendarObject{Data: mustCal(t, evCal)}
	q := CompFilter{Name: "VCALENDAR", Comps: []CompFilter{{Name: "VEVENT", Props: []PropFilter{{Name: "SUMMARY", IsNotDefined: true}}}}}
	ok, err := Match(q, co)
	if err != nil || ok {
		t.Fatalf("is-not-defined SUMMARY matched an event that has a SUMMARY: %v %v", ok, err)
	}
}

func TestFindingC06RangeExactlyFilled(t *testing.T) {
	co := &CalendarObject{Data: mustCal(t, evCal)}
	start := time.Date(2024, 1, 1, 10, 0, 0, 0, time.UTC)
	end := time.Date(2024, 1, 1, 11, 0, 0, 0, time.UTC)
	q := CompFilter{Name: "VCALENDAR", Comps: []CompFilter{{Name: "VEVENT", Start: start, End: end}}}
	ok, err := Match(q, co)
	if err != nil || !ok {
		t.Fatalf("event [10:00,11:00) does not match time range [10:00,11:00): %v %v", ok, err)
	}
}

func TestFindingC06RangeEndOnly(t *testing.T) {
	co := &CalendarObject{Data: mustCal(t, evCal)}
	end := time.Date(2023, 1, 1, 0, 0, 0, 0, time.UTC) // a year before the event
	q := CompFilter{Name: "VCALENDAR", Comps: []CompFilter{{Name: "VEVENT", End: end}}}
	ok, err := Match(q, co)
	if err != nil || ok {
		t.Fatalf("time range with only an end (before the event) was ignored: %v %v", ok, err)
	}
}

func TestFindingC06PropRangeInclusiveStart(t *testing.T) {
	co := &CalendarObject{Data: mustCal(t, evCal)}
	start := time.Date(2024, 1, 1, 10, 0, 0, 0, time.UTC)
	end := time.Date(2024, 1, 1, 11, 0, 0, 0, time.UTC)
	q := CompFilter{Name: "VCALENDAR", Comps: []CompFilter{{Name: "VEVENT", Props: []PropFilter{{Name: "DTSTART", Start: start, End: end}}}}}
	ok, err := Match(q, co)
	if err != nil || !ok {
		t.Fatalf("DTSTART 10:00 does not match property time range [10:00,11:00): %v %v", ok, err)
	}
}

func TestFindingC16DateWithUTCTimeZone(t *testing.T) {
	in := time.Date(2024, 1, 1, 12, 0, 0, 0, time.FixedZone("x", 2*3600))
	d := dateWithUTCTime(in)
	b, err := d.MarshalText()
	if err != nil {
		t.Fatal(err)
	}
	var out dateWithUTCTime
	if err := out.UnmarshalText(b); err != nil {
		t.Fatal(err)
	}
	if !time.Time(out).Equal(in) {
		t.Fatalf("instant %v became %v on the wire (%s)", in, time.Time(out), b)
	}
}

// ---------------------------------------------------------------------------------------------
// C13: malformed requests must be answered 4xx, never 5xx

type findingsBackend struct{ puts, deletes, creates int }

func (b *findingsBackend) CalendarHomeSetPath(ctx context.Context) (string, error) {
	return "/user/calendars/", nil
}
func (b *findingsBackend) CurrentUserPrincipal(ctx context.Context) (string, error) {
	return "/user/", nil
}
func (b *findingsBackend) CreateCalendar(ctx context.Context, c *Calendar) error { b.creates++; return nil }
func (b *findingsBackend) ListCalendars(ctx context.Context) ([]Calendar, error) {
	return []Calendar{{Path: "/user/calendars/a/"}}, nil
}
func (b *findingsBackend) GetCalendar(ctx context.Context, path string) (*Calendar, error) {
	return &Calendar{Path: path}, nil
}
func (b *findingsBackend) GetCalendarObject(ctx context.Context, path string, req *CalendarCompRequest) (*CalendarObject, error) {
	return nil, fmt.Errorf("no such object")
}
func (b *findingsBackend) ListCalendarObjects(ctx context.Context, path string, req *CalendarCompRequest) ([]CalendarObject, error) {
	return nil, nil
}
func (b *findingsBackend) QueryCalendarObjects(ctx context.Context, path string, query *CalendarQuery) ([]CalendarObject, error) {
	return nil, nil
}
func (b *findingsBackend) PutCalendarObject(ctx context.Context, path string, calendar *ical.Calendar, opts *PutCalendarObjectOptions) (*CalendarObject, error) {
	b.puts++
	return &CalendarObject{Path: path}, nil
}
func (b *findingsBackend) DeleteCalendarObject(ctx context.Context, path string) error {
	b.deletes++
	return nil
}

func findingsReport(t *testing.T, body string) int {
	t.Helper()
	req := httptest.NewRequest("REPORT", "/user/calendars/a/", strings.NewReader(body))
	req.Header.Set("Content-Type", "application/xml")
	w := httptest.NewRecorder()
	h := Handler{Backend: &findingsBackend{}}
	h.ServeHTTP(w, req)
	return w.Result().StatusCode
}

func TestFindingC13MultigetInvalidExpandDate(t *testing.T) {
	code := findingsReport(t, `<C:calendar-multiget xmlns:D="DAV:" xmlns:C="urn:ietf:params:xml:ns:caldav">
<D:prop><C:calendar-data><C:expand start="yesterday" end="20240102T000000Z"/></C:calendar-data></D:prop>
<D:href>/user/calendars/a/x.ics</D:href></C:calendar-multiget>`)
	if code < 400 || code > 499 {
		t.Fatalf("calendar-multiget with an invalid expand date answered %d, want 4xx", code)
	}
}

func TestFindingC13QueryContradictoryCompFilter(t *testing.T) {
	code := findingsReport(t, `<C:calendar-query xmlns:D="DAV:" xmlns:C="urn:ietf:params:xml:ns:caldav">
<D:prop><D:getetag/></D:prop>
<C:filter><C:comp-filter name="VCALENDAR"><C:comp-filter name="VEVENT"><C:is-not-defined/><C:prop-filter name="UID"/></C:comp-filter></C:comp-filter></C:filter>
</C:calendar-query>`)
	if code < 400 || code > 499 {
		t.Fatalf("calendar-query with is-not-defined plus a nested filter answered %d, want 4xx", code)
	}
}

// ---------------------------------------------------------------------------------------------
// C08: calendar-query / calendar-multiget cross the wire without loss

type recordingBackend struct {
	findingsBackend
	query   *CalendarQuery
	compReq *CalendarCompRequest
}

func (b *recordingBackend) QueryCalendarObjects(ctx context.Context, path string, query *CalendarQuery) ([]CalendarObject, error) {
	b.query = query
	return nil, nil
}

func (b *recordingBackend) GetCalendarObject(ctx context.Context, path string, req *CalendarCompRequest) (*CalendarObject, error) {
	b.compReq = req
	return nil, fmt.Errorf("no such object")
}

func findingsClient(t *testing.T, b Backend) (*Client, func()) {
	t.Helper()
	srv := httptest.NewServer(&Handler{Backend: b})
	c, err := NewClient(nil, srv.URL)
	if err != nil {
		t.Fatal(err)
	}
	return c, srv.Close
}

func TestFindingC08IsNotDefinedReachesBackend(t *testing.T) {
	b := &recordingBackend{}
	c, done := findingsClient(t, b)
	defer done()
	q := &CalendarQuery{CompFilter: CompFilter{Name: "VCALENDAR", Comps: []CompFilter{{Name: "VTODO", IsNotDefined: true},
		{Name: "VEVENT", Props: []PropFilter{{Name: "LOCATION", IsNotDefined: true}, {Name: "ATTENDEE", ParamFilter: []ParamFilter{{Name: "PARTSTAT", IsNotDefined: true}}}}}}}}
	if _, err := c.QueryCalendar(context.Background(), "/user/calendars/a/", q); err != nil {
		t.Fatal(err)
	}
	got := b.query.CompFilter
	if len(got.Comps) != 2 || !got.Comps[0].IsNotDefined {
		t.Errorf("comp-filter is-not-defined lost: %+v", got.Comps)
	}
	if len(got.Comps) == 2 && (len(got.Comps[1].Props) != 2 || !got.Comps[1].Props[0].IsNotDefined) {
		t.Errorf("prop-filter is-not-defined lost: %+v", got.Comps[1].Props)
	}
	if len(got.Comps) == 2 && len(got.Comps[1].Props) == 2 && (len(got.Comps[1].Props[1].ParamFilter) != 1 || !got.Comps[1].Props[1].ParamFilter[0].IsNotDefined) {
		t.Errorf("param-filter is-not-defined lost: %+v", got.Comps[1].Props[1].ParamFilter)
	}
}

func TestFindingC08NegateConditionReachesBackend(t *testing.T) {
	b := &recordingBackend{}
	c, done := findingsClient(t, b)
	defer done()
	q := &CalendarQuery{CompFilter: CompFilter{Name: "VCALENDAR", Comps: []CompFilter{{Name: "VEVENT", Props: []PropFilter{
		{Name: "SUMMARY", TextMatch: &TextMatch{Text: "x", NegateCondition: true}},
		{Name: "ATTENDEE", ParamFilter: []ParamFilter{{Name: "PARTSTAT", TextMatch: &TextMatch{Text: "y", NegateCondition: true}}}}}}}}}
	if _, err := c.QueryCalendar(context.Background(), "/user/calendars/a/", q); err != nil {
		t.Fatal(err)
	}
	props := b.query.CompFilter.Comps[0].Props
	if props[0].TextMatch == nil || !props[0].TextMatch.NegateCondition {
		t.Errorf("prop-filter negate-condition lost: %+v", props[0].TextMatch)
	}
	if len(props[1].ParamFilter) != 1 || props[1].ParamFilter[0].TextMatch == nil || !props[1].ParamFilter[0].TextMatch.NegateCondition {
		t.Errorf("param-filter negate-condition lost")
	}
}

func TestFindingC08QueryCompRequestReachesBackend(t *testing.T) {
	b := &recordingBackend{}
	c, done := findingsClient(t, b)
	defer done()
	q := &CalendarQuery{CompRequest: CalendarCompRequest{Name: "VCALENDAR", Props: []string{"VERSION"},
		Comps: []CalendarCompRequest{{Name: "VEVENT", Props: []string{"SUMMARY", "UID"}}}}, CompFilter: CompFilter{Name: "VCALENDAR"}}
	if _, err := c.QueryCalendar(context.Background(), "/user/calendars/a/", q); err != nil {
		t.Fatal(err)
	}
	got := b.query.CompRequest
	if got.Name != "VCALENDAR" || len(got.Props) != 1 || len(got.Comps) != 1 || got.Comps[0].Name != "VEVENT" || len(got.Comps[0].Props) != 2 {
		t.Errorf("calendar-query component/property selection lost: %+v", got)
	}
}

func TestFindingC08MultigetCompNamesAndExpandReachBackend(t *testing.T) {
	b := &recordingBackend{}
	c, done := findingsClient(t, b)
	defer done()
	start := time.Date(2024, 1, 1, 0, 0, 0, 0, time.UTC)
	end := time.Date(2024, 2, 1, 0, 0, 0, 0, time.UTC)
	mg := &CalendarMultiGet{Paths: []string{"/user/calendars/a/x.ics"}, CompRequest: CalendarCompRequest{Name: "VCALENDAR",
		Comps: []CalendarCompRequest{{Name: "VEVENT", Props: []string{"SUMMARY"}}}, Expand: &CalendarExpandRequest{Start: start, End: end}}}
	c.MultiGetCalendar(context.Background(), "/user/calendars/a/", mg)
	if b.compReq == nil {
		t.Fatal("backend not called")
	}
	if b.compReq.Name != "VCALENDAR" || len(b.compReq.Comps) != 1 || b.compReq.Comps[0].Name != "VEVENT" {
		t.Errorf("component names of the selection lost: %+v", *b.compReq)
	}
	if b.compReq.Expand == nil || !b.compReq.Expand.Start.Equal(start) || !b.compReq.Expand.End.Equal(end) {
		t.Errorf("expand range lost: %+v", b.compReq.Expand)
	}
}

// ---------------------------------------------------------------------------------------------
// C12: the backend operation belonging to the level. OPEN finding (not repaired): DELETE at any depth is
// handed to DeleteCalendarObject, e.g. for a calendar collection, the home set or the principal.
func TestFindingC12DeleteAboveObjectDepthReachesDeleteCalendarObject(t *testing.T) {
	for _, p := range []string{"/user/calendars/a/", "/user/calendars/", "/user/"} {
		b := &findingsBackend{}
		req := httptest.NewRequest("DELETE", p, nil)
		w := httptest.NewRecorder()
		h := Handler{Backend: b}
		h.ServeHTTP(w, req)
		if b.deletes != 0 {
			t.Errorf("DELETE %s (not a calendar object) reached DeleteCalendarObject, status %d", p, w.Result().StatusCode)
		}
	}
}

// ---------------------------------------------------------------------------------------------
// C10: a PUT hands back the backend's path. The server wrote the raw path into the Location header, the client
// parses the header as a URL: a path containing '%', '?' or '#' came back altered (fixed: the header is escaped).
type locBackend struct {
	findingsBackend
	path string
}

func (b *locBackend) PutCalendarObject(ctx context.Context, path string, calendar *ical.Calendar, opts *PutCalendarObjectOptions) (*CalendarObject, error) {
	return &CalendarObject{Path: b.path, ETag: "t"}, nil
}

func TestFindingC10PutLocationRoundTrip(t *testing.T) {
	for _, p := range []string{"/user/calendars/a/50%25 off.ics", "/user/calendars/a/what?.ics", "/user/calendars/a/#1.ics", "/user/calendars/a/plain.ics"} {
		srv := httptest.NewServer(&Handler{Backend: &locBackend{path: p}})
		c, err := NewClient(nil, srv.URL)
		if err != nil {
			t.Fatal(err)
		}
		co, err := c.PutCalendarObject(context.Background(), "/user/calendars/a/x.ics", mustCal(t, evCal))
		srv.Close()
		if err != nil {
			t.Fatalf("%q: %v", p, err)
		}
		if co.Path != p {
			t.Errorf("backend path %q came back as %q", p, co.Path)
		}
	}
}
