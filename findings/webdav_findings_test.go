package webdav

// Demonstrations of genuine defects of the WebDAV file server (see /verif/known_findings.json).
// Each test states the behaviour the property demands. Run with /verif/findings/run.sh.

import (
	"net/http/httptest"
	"os"
	"path/filepath"
	"strings"
	"testing"
)

func findingsServe(t *testing.T, dir, method, path string, hdr map[string]string, body string) (int, string) {
	t.Helper()
	req := httptest.NewRequest(method, path, strings.NewReader(body))
	for k, v := range hdr {
		req.Header.Set(k, v)
	}
	w := httptest.NewRecorder()
	h := Handler{FileSystem: LocalFileSystem(dir)}
	h.ServeHTTP(w, req)
	return w.Result().StatusCode, w.Body.String()
}

func TestFindingC13InvalidOverwriteHeader(t *testing.T) {
	dir := t.TempDir()
	os.WriteFile(filepath.Join(dir, "a"), []byte("x"), 0o644)
	code, _ := findingsServe(t, dir, "COPY", "/a", map[string]string{"Destination": "/b", "Overwrite": "maybe"}, "")
	if code != 400 {
		t.Fatalf("COPY with an invalid Overwrite header answered %d, want 400", code)
	}
}

func TestFindingC13InvalidDepthHeader(t *testing.T) {
	dir := t.TempDir()
	os.WriteFile(filepath.Join(dir, "a"), []byte("x"), 0o644)
	code, _ := findingsServe(t, dir, "MOVE", "/a", map[string]string{"Destination": "/b", "Depth": "2"}, "")
	if code != 400 {
		t.Fatalf("MOVE with an invalid Depth header answered %d, want 400", code)
	}
}

// ---------------------------------------------------------------------------------------------
// C01 / C02 / C17: the file server against the RFC 4918 resource-tree model

func findingsTree(t *testing.T) string {
	t.Helper()
	dir := t.TempDir()
	os.WriteFile(filepath.Join(dir, "file"), []byte("content"), 0o644)
	os.Mkdir(filepath.Join(dir, "col"), 0o755)
	os.WriteFile(filepath.Join(dir, "col", "member"), []byte("m"), 0o644)
	return dir
}

func exists(p string) bool { _, err := os.Lstat(p); return err == nil }

func TestFindingC01GetBelowRegularFile(t *testing.T) {
	dir := findingsTree(t)
	code, _ := findingsServe(t, dir, "GET", "/file/x", nil, "")
	if code != 404 {
		t.Fatalf("GET of a path below a regular file answered %d, want 404", code)
	}
}

func TestFindingC01MkcolBelowRegularFile(t *testing.T) {
	dir := findingsTree(t)
	code, _ := findingsServe(t, dir, "MKCOL", "/file/x", nil, "")
	if code != 409 {
		t.Fatalf("MKCOL below a regular file answered %d, want 409", code)
	}
}

func TestFindingC17MkcolExistingLeaksHostPath(t *testing.T) {
	dir := findingsTree(t)
	code, body := findingsServe(t, dir, "MKCOL", "/col", nil, "")
	if code != 405 {
		t.Fatalf("MKCOL on an existing collection answered %d, want 405", code)
	}
	if strings.Contains(body, dir) {
		t.Fatalf("response body discloses the host path: %q", body)
	}
}

func TestFindingC01PutOntoCollection(t *testing.T) {
	dir := findingsTree(t)
	code, _ := findingsServe(t, dir, "PUT", "/col", nil, "x")
	if code != 405 {
		t.Fatalf("PUT onto a collection answered %d, want 405", code)
	}
}

func TestFindingC01PutBelowRegularFile(t *testing.T) {
	dir := findingsTree(t)
	code, _ := findingsServe(t, dir, "PUT", "/file/x", nil, "x")
	if code != 409 {
		t.Fatalf("PUT below a regular file answered %d, want 409", code)
	}
}

func TestFindingC01PutMissingParent(t *testing.T) {
	dir := findingsTree(t)
	code, _ := findingsServe(t, dir, "PUT", "/nope/x", nil, "x")
	if code != 409 {
		t.Fatalf("PUT with a missing parent collection answered %d, want 409", code)
	}
}

func TestFindingC01DeleteBelowRegularFile(t *testing.T) {
	dir := findingsTree(t)
	code, _ := findingsServe(t, dir, "DELETE", "/file/x", nil, "")
	if code != 404 {
		t.Fatalf("DELETE of a path below a regular file answered %d, want 404", code)
	}
}

func readOr(p string) string {
	b, err := os.ReadFile(p)
	if err != nil {
		return "<" + err.Error() + ">"
	}
	return string(b)
}

func TestFindingC02MoveMissingSourceDestroysDestination(t *testing.T) {
	dir := findingsTree(t)
	code, body := findingsServe(t, dir, "MOVE", "/nope", map[string]string{"Destination": "/file"}, "")
	if code != 404 {
		t.Fatalf("MOVE of a missing source answered %d, want 404", code)
	}
	if got := readOr(filepath.Join(dir, "file")); got != "content" {
		t.Fatalf("MOVE answered %d but the destination is now %q", code, got)
	}
	if strings.Contains(body, dir) {
		t.Fatalf("response body discloses the host path: %q", body)
	}
}

func TestFindingC17MoveErrorLeaksHostPath(t *testing.T) {
	dir := findingsTree(t)
	_, body := findingsServe(t, dir, "MOVE", "/nope", map[string]string{"Destination": "/other"}, "")
	if strings.Contains(body, dir) {
		t.Fatalf("response body discloses the host path: %q", body)
	}
}

func TestFindingC02CopyOntoItselfDestroysResource(t *testing.T) {
	dir := findingsTree(t)
	code, _ := findingsServe(t, dir, "COPY", "/file", map[string]string{"Destination": "/file"}, "")
	if code != 403 {
		t.Errorf("COPY of a resource onto itself answered %d, want 403", code)
	}
	if got := readOr(filepath.Join(dir, "file")); got != "content" {
		t.Fatalf("COPY answered %d but the resource is now %q", code, got)
	}
}

func TestFindingC02MoveOntoItself(t *testing.T) {
	dir := findingsTree(t)
	code, _ := findingsServe(t, dir, "MOVE", "/col", map[string]string{"Destination": "/col"}, "")
	if code != 403 {
		t.Errorf("MOVE of a resource onto itself answered %d, want 403", code)
	}
	if got := readOr(filepath.Join(dir, "col", "member")); got != "m" {
		t.Fatalf("MOVE answered %d but the member is now %q", code, got)
	}
}

func TestFindingC01CopyCollectionRecursively(t *testing.T) {
	dir := findingsTree(t)
	code, _ := findingsServe(t, dir, "COPY", "/col", map[string]string{"Destination": "/col2"}, "")
	if code != 201 {
		t.Errorf("COPY of a non-empty collection answered %d, want 201", code)
	}
	if got := readOr(filepath.Join(dir, "col2", "member")); got != "m" {
		t.Fatalf("the member was not copied: %q", got)
	}
}

func TestFindingC01CopyMissingDestinationParent(t *testing.T) {
	dir := findingsTree(t)
	code, _ := findingsServe(t, dir, "COPY", "/col", map[string]string{"Destination": "/nope/col2"}, "")
	if code != 409 {
		t.Fatalf("COPY of a collection below a missing parent answered %d, want 409", code)
	}
}

func TestFindingC01MoveMissingDestinationParent(t *testing.T) {
	dir := findingsTree(t)
	code, _ := findingsServe(t, dir, "MOVE", "/file", map[string]string{"Destination": "/nope/f"}, "")
	if code != 409 {
		t.Fatalf("MOVE below a missing parent answered %d, want 409", code)
	}
}

func TestFindingC02CopyIntoOwnDescendant(t *testing.T) {
	dir := findingsTree(t)
	code, _ := findingsServe(t, dir, "COPY", "/col", map[string]string{"Destination": "/col/sub"}, "")
	if code < 400 || code >= 500 {
		t.Errorf("COPY of a collection into itself answered %d, want 4xx", code)
	}
	if exists(filepath.Join(dir, "col", "sub")) {
		t.Fatalf("COPY answered %d but created the destination", code)
	}
}

func TestFindingC02MoveOntoOwnAncestorDestroysTree(t *testing.T) {
	dir := findingsTree(t)
	code, _ := findingsServe(t, dir, "MOVE", "/col/member", map[string]string{"Destination": "/col"}, "")
	if code >= 400 && readOr(filepath.Join(dir, "col", "member")) != "m" {
		t.Fatalf("MOVE answered %d but the source is gone", code)
	}
	if code < 400 && readOr(filepath.Join(dir, "col")) != "m" {
		t.Fatalf("MOVE answered %d but the destination does not hold the source", code)
	}
}

type failingBody struct{ n int }

func (b *failingBody) Read(p []byte) (int, error) {
	if b.n == 0 {
		return 0, os.ErrClosed
	}
	b.n--
	p[0] = 'Z'
	return 1, nil
}

func TestFindingC02PutBodyFailureDestroysOldContent(t *testing.T) {
	dir := findingsTree(t)
	req := httptest.NewRequest("PUT", "/file", &failingBody{n: 3})
	w := httptest.NewRecorder()
	h := Handler{FileSystem: LocalFileSystem(dir)}
	h.ServeHTTP(w, req)
	if w.Result().StatusCode < 400 {
		t.Fatalf("PUT with a failing body answered %d", w.Result().StatusCode)
	}
	if got := readOr(filepath.Join(dir, "file")); got != "content" {
		t.Fatalf("PUT answered %d but the old content is now %q", w.Result().StatusCode, got)
	}
}

func TestFindingC17CopyFileMissingParentLeaksHostPath(t *testing.T) {
	dir := findingsTree(t)
	code, body := findingsServe(t, dir, "COPY", "/file", map[string]string{"Destination": "/nope/f"}, "")
	if code != 409 {
		t.Errorf("COPY of a file below a missing parent answered %d, want 409", code)
	}
	if strings.Contains(body, dir) {
		t.Fatalf("response body discloses the host path: %q", body)
	}
}

func TestFindingC01MoveBelowRegularFile(t *testing.T) {
	dir := findingsTree(t)
	code, _ := findingsServe(t, dir, "MOVE", "/col", map[string]string{"Destination": "/file/x"}, "")
	if code != 409 {
		t.Fatalf("MOVE below a regular file answered %d, want 409", code)
	}
}
