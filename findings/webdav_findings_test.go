package webdav

// Demonstrations of genuine defects of the WebDAV file server (see /verif/known_findings.json).
// Each test states the behaviour the property demands. Run with /verif/findings/run.sh.

import (
	"net/http/httptest"
	"os"
	"path/filepath"
	"strings"
	"testing"
)

func findingsServe(t *testing.T, dir, method, path string, hdr map[string]string, body string) (int, string) {
	t.Helper()
	req := httptest.NewRequest(method, path, strings.NewReader(body))
	for k, v := range hdr {
		req.Header.Set(k, v)
	}
	w := httptest.NewRecorder()
	h := Handler{FileSystem: LocalFileSystem(dir)}
	h.ServeHTTP(w, req)
	return w.Result().StatusCode, w.Body.String()
}

func TestFindingC13InvalidOverwriteHeader(t *testing.T) {
	dir := t.TempDir()
	os.WriteFile(filepath.Join(dir, "a"), []byte("x"), 0o644)
	code, _ := findingsServe(t, dir, "COPY", "/a", map[string]string{"Destination": "/b", "Overwrite": "maybe"}, "")
	if code != 400 {
		t.Fatalf("COPY with an invalid Overwrite header answered %d, want 400", code)
	}
}

func TestFindingC13InvalidDepthHeader(t *testing.T) {
	dir := t.TempDir()
	os.WriteFile(filepath.Join(dir, "a"), []byte("x"), 0o644)
	code, _ := findingsServe(t, dir, "MOVE", "/a", map[string]string{"Destination": "/b", "Depth": "2"}, "")
	if code != 400 {
		t.Fatalf("MOVE with an invalid Depth header answered %d, want 400", code)
	}
}
