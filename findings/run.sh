#!/bin/sh
# usage: run.sh <repo-dir> [-run regexp]   -- runs the finding demonstrations against a tree without writing to it
repo=${1:-/repo}; shift
export GOFLAGS=-mod=mod GOPROXY=off GOSUMDB=off
ov=$(mktemp)
cat > "$ov" <<EOT
{"Replace":{"$repo/caldav/zz_findings_test.go":"/verif/findings/caldav_findings_test.go","$repo/zz_findings_test.go":"/verif/findings/webdav_findings_test.go"}}
EOT
(cd "$repo" && go test -overlay "$ov" -vet=off -count=1 -timeout 120s -run 'TestFinding' "$@" ./caldav/ .)
rc=$?
rm -f "$ov"
exit $rc
