#!/bin/sh
# run-time contract evaluation (bounded cross-check) of every function of every claimed property
cd /verif
fns=$(python3 -c "
import json
p=json.load(open('props.json'))
s=[]
for k in sorted(p):
    for f in p[k]['functions']:
        if f not in s: s.append(f)
print(' '.join(\"'%s'\"%f for f in s))")
eval bin/govc rt -n ${1:-3000} $fns
