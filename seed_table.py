#!/usr/bin/env python3
# prints a markdown table of seeded changes (default: wave c) from /verif/seeded/*/meta.json
import json, glob, sys, re
wave = sys.argv[1] if len(sys.argv) > 1 else 'c'
rows = []
for d in sorted(glob.glob('/verif/seeded/C*-%s[0-9]' % wave)):
    m = json.load(open(d + '/meta.json'))
    sid = d.split('/')[-1]
    cr = m.get('check_result', {})
    v = [re.sub(r'.*replays/[^-]*-', '', x.split()[2]).replace('.json', '') for x in cr.get('violations', [])]
    det = ', '.join(v[:3]) if cr.get('exit') == 1 else 'NOT DETECTED' + (' (' + m['detection_note'] + ')' if 'detection_note' in m else '')
    s = m['summary'].replace('|', '/').replace('\n', ' ')
    rows.append('| %s | %s | %s |' % (sid, s[:150] + ('...' if len(s) > 150 else ''), det))
print('| seed | change (sub-agent\'s summary, shortened) | failing obligation(s) reported by the property\'s quick check |')
print('|---|---|---|')
print('\n'.join(rows))
