#!/bin/bash
export GOVC_EVIDENCE_DIR=/tmp/govc-seed-evidence
if [ -n "$(git -C /repo status --porcelain)" ]; then echo "refusing: /repo has uncommitted changes (they would be reverted)"; exit 2; fi
# usage: seed_confirm.sh <property> <scratch-worktree> <N> <seed-id> [<mutant-dir>]   (mutant-dir defaults to <scratch-worktree>/mutants/<N>)
# Confirms a sub-agent's mutant in the scratch worktree (builds, suite passes, demo fails with / passes without),
# stores it as /verif/seeded/<seed-id>/ and runs the property's quick check on /repo with the patch applied.
set -u
prop=$1; wt=$2; n=$3; sid=$4
export GOFLAGS=-mod=mod GOPROXY=off GOSUMDB=off GOTOOLCHAIN=local
m=${5:-$wt/mutants/$n}
[ -f $m/patch.diff ] || { echo "no patch"; exit 2; }
demo=$m/demo_test.go
dir=$(head -1 $demo | sed -n 's,^// dir: *,,p'); 
if [ -z "$dir" ]; then pkg=$(grep -m1 '^package ' $demo | awk '{print $2}'); case $pkg in webdav) dir=.;; *) dir=$pkg;; esac; fi
cd $wt && git checkout -q -- . && rm -f */zz_demo_test.go zz_demo_test.go
log=""
git apply $m/patch.diff || { echo "patch does not apply"; exit 2; }
go build ./... >/dev/null 2>&1 && a=ok || a=FAIL
go test -vet=off -count=1 $(go list ./... | grep -v mutants) >/dev/null 2>&1 && b=ok || b=FAIL
cp $demo $dir/zz_demo_test.go
go test -vet=off -count=1 -run . ./$dir >/dev/null 2>&1 && c=UNEXPECTED-PASS || c=fails-as-expected
git checkout -q -- .
go test -vet=off -count=1 -run . ./$dir >/dev/null 2>&1 && d=passes-as-expected || d=UNEXPECTED-FAIL
rm -f $dir/zz_demo_test.go
echo "confirm: build=$a suite=$b demo-with-patch=$c demo-clean=$d"
mkdir -p /verif/seeded/$sid
cp $m/patch.diff $m/meta.json /verif/seeded/$sid/
cp $demo /verif/seeded/$sid/demo_test.go
# run the check on /repo with the patch applied
cd /repo && git apply /verif/seeded/$sid/patch.diff || { echo "patch does not apply to /repo"; exit 2; }
out=$(/verif/bin/govc check --property $prop --tier quick 2>&1); rc=$?
git -C /repo checkout -q -- .
echo "$out" | grep -E "VIOLATION|OK |ENGINE" | head -5
echo "check exit=$rc"
python3 - "$sid" "$prop" "$a" "$b" "$c" "$d" "$rc" "$out" <<'PY'
import json,sys
sid,prop,a,b,c,d,rc,out=sys.argv[1:9]
p='/verif/seeded/%s/meta.json'%sid
m=json.load(open(p))
m['property']=prop
m['confirmed']={'build':a,'existing_suite':b,'demo_with_patch':c,'demo_on_clean_tree':d,
  'commands':'git apply patch.diff; go build ./...; go test -vet=off -count=1 ./...; cp demo_test.go <dir>/zz_demo_test.go; go test -run . ./<dir>; git checkout -- .; go test -run . ./<dir>'}
m['check_result']={'cmd':'git -C /repo apply patch.diff; /verif/bin/govc check --property %s --tier quick; git -C /repo checkout -- .'%prop,'exit':int(rc),
  'violations':[l for l in out.splitlines() if l.startswith('VIOLATION')][:6]}
json.dump(m,open(p,'w'),indent=1)
PY
