#!/bin/bash
export GOVC_EVIDENCE_DIR=/tmp/govc-seed-evidence
if [ -n "$(git -C /repo status --porcelain)" ]; then echo "refusing: /repo has uncommitted changes (they would be reverted)"; exit 2; fi
# Re-runs the quick check of every seeded mutant's property with the patch applied to /repo (reverted afterwards).
# usage: seed_rerun.sh [seed-id ...]
cd /verif/seeded
ids=${@:-$(ls)}
miss=0
for sid in $ids; do
  prop=$(python3 -c "import json;print(json.load(open('/verif/seeded/$sid/meta.json'))['property'])")
  git -C /repo apply /verif/seeded/$sid/patch.diff || { echo "$sid: patch does not apply"; continue; }
  out=$(/verif/bin/govc check --property $prop --tier quick 2>&1); rc=$?
  git -C /repo checkout -q -- .
  nv=$(echo "$out" | grep -c '^VIOLATION')
  nr=$(echo "$out" | grep '^VIOLATION' | grep -vc 'no-failing-input-found')
  echo "$sid property=$prop exit=$rc violations=$nv with-replayed-input=$nr"
  if [ $rc -ne 1 ]; then
    if grep -q '"detection_note"' /verif/seeded/$sid/meta.json; then echo "   (expected miss: outside reach, see detection_note in meta.json)"; else miss=$((miss+1)); fi
  fi
  python3 /verif/seed_record.py "$sid" "$prop" "$rc" "$out" /repo
done
echo "not detected: $miss"
