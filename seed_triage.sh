#!/bin/bash
# Triage of freshly collected seeded changes without touching /repo: confirms each change in its scratch worktree
# (builds, suite passes, demonstration fails with / passes without) and runs the property's quick check on a scratch
# worktree of /repo's HEAD (GOVC_REPO) with the patch applied. The registered numbers come from seed_rerun.sh,
# which applies the patch to /repo itself.
# usage: seed_triage.sh <out-root> <scratch-repo> <wave-suffix> id...     e.g. seed_triage.sh /tmp/wtout /tmp/seedrepo c C05c C08c
set -u
export GOFLAGS=-mod=mod GOPROXY=off GOSUMDB=off GOTOOLCHAIN=local
out=$1; sr=$2; suf=$3; shift 3
export GOVC_EVIDENCE_DIR=/tmp/govc-seed-evidence GOVC_REPO=$sr
for id in "$@"; do
  prop=${id%$suf}
  wt=/tmp/wt/$id
  for n in 1 2 3; do
    m=$out/$id/$n
    [ -f $m/patch.diff ] || continue
    sid=$prop-$suf$n
    demo=$m/demo_test.go
    dir=$(head -1 $demo | sed -n 's,^// dir: *,,p'); [ -z "$dir" ] && dir=.
    ( cd $wt && git checkout -q -- . && rm -f */zz_demo_test.go zz_demo_test.go
      git apply $m/patch.diff || { echo "$sid: patch does not apply"; exit 0; }
      go build ./... >/dev/null 2>&1 && a=ok || a=FAIL
      go test -vet=off -count=1 ./... >/dev/null 2>&1 && b=ok || b=FAIL
      cp $demo $dir/zz_demo_test.go
      go test -vet=off -count=1 -run TestDemo ./$dir >/dev/null 2>&1 && c=UNEXPECTED-PASS || c=fails-as-expected
      git checkout -q -- .
      go test -vet=off -count=1 -run TestDemo ./$dir >/dev/null 2>&1 && d=passes-as-expected || d=UNEXPECTED-FAIL
      rm -f $dir/zz_demo_test.go
      echo "$sid confirm: build=$a suite=$b demo-with-patch=$c demo-clean=$d"
      mkdir -p /verif/seeded/$sid; cp $m/patch.diff $m/meta.json /verif/seeded/$sid/; cp $demo /verif/seeded/$sid/demo_test.go
      python3 - "$sid" "$prop" "$a" "$b" "$c" "$d" <<'PY'
import json,sys
sid,prop,a,b,c,d=sys.argv[1:7]
p='/verif/seeded/%s/meta.json'%sid
m=json.load(open(p)); m['property']=prop
m['confirmed']={'build':a,'existing_suite':b,'demo_with_patch':c,'demo_on_clean_tree':d,
  'commands':'git apply patch.diff; go build ./...; go test -vet=off -count=1 ./...; cp demo_test.go <dir>/zz_demo_test.go; go test -run TestDemo ./<dir>; git checkout -- .; go test -run TestDemo ./<dir>'}
json.dump(m,open(p,'w'),indent=1)
PY
    )
    ( cd $sr && git checkout -q -- . && git apply /verif/seeded/$sid/patch.diff ) || { echo "$sid: patch does not apply to scratch repo"; continue; }
    o=$(/verif/bin/govc check --property $prop --tier quick 2>&1); rc=$?
    ( cd $sr && git checkout -q -- . )
    echo "$sid check exit=$rc $(echo "$o" | grep -c '^VIOLATION') violations: $(echo "$o" | grep '^VIOLATION' | sed 's/.*replays\///' | tr '\n' ' ' | cut -c1-300)"
    python3 /verif/seed_record.py "$sid" "$prop" "$rc" "$o" "$sr"
  done
done
